/-
  GenLogicVerify (part of GenLogic) — the DECISION LOGIC of the hand-written engine models is the decision logic of the
  current source.

  `Gen/Logic*.lean` is regenerated from /repo on every run (translate/gen_logic.py): the boolean
  conditions of `can_backdate` / `backdate_if_appropriate`, `shallow_verify_memo`,
  `maybe_changed_after_hot/_cold`, `verify_memo`, `deep_verify_memo/_edges`, `fetch_hot/_cold`,
  the claim protocol (what each `try_claim` outcome leads to, claim before memo lookup), … as Lean functions over small structures of abstract values.  The theorems below state that
  each model decision IS the generated one (extensional equality, for all inputs), and that whole
  model steps equal the steps re-assembled from generated decisions (`Proofs/GenLogic.lean`).
  An edit of such a condition in /repo changes the generated definition and breaks a theorem here
  (or makes the translator fail, which breaks the build of this module).

  PROVED: every theorem in this file.
-/
import SalsaVerif.Proofs.GenLogicVerify

namespace SalsaVerif.Props.GenLogic
open SalsaVerif.Gen.LogicVerify SalsaVerif.Proofs.GenLogic
open SalsaVerif.Model

/-! ## 1. backdating (src/function/backdate.rs) -/

/-- closed form of the generated `can_backdate` -/
theorem genlogic_can_backdate (b : BackdateIn) :
    can_backdate b = (b.newCycleHeadsEmpty && !b.oldMayBeProvisional
      && decide (b.oldDurability ≤ b.newDurability)) := by
  simp [can_backdate]

/-- `Core.backdateCa` is `backdate_if_appropriate` of a cycle-free, `specify`-free program.
    (`plainBackdateIn` / `specBackdateIn` / `plainMemoIn` set `oldWasCycleParticipant := false`,
    `oldMayBeProvisional := false`, `mayBeProvisional := false`: the engine models Core, Core3,
    CoreAcc, CoreSpec have no cycles, hence no such memos; all equalities with them hold under
    these built-in hypotheses.  What the conditions do for provisional memos / former cycle
    participants is stated in closed form: `genlogic_provisional_guards`,
    `genlogic_verified_provisional_is_changed`, `genlogic_participant_changed_at_monotone`.) -/
theorem genlogic_core_backdate (old : Option Core.Memo) (v : Nat) (f : Core.Frame) :
    Core.backdateCa old v f =
      match old with
      | none => f.ca
      | some o => (backdate_if_appropriate
          (plainBackdateIn o.dur f.dur (decide (o.value = v)) o.ca f.ca)).1 := by
  cases old with
  | none => rfl
  | some o =>
    simp only [Core.backdateCa, backdate_if_appropriate, source_changed, backdated, can_backdate,
      backdate_to, participant_keeps_stamp, participant_stamp, plainBackdateIn]
    by_cases h1 : o.value = v <;> by_cases h2 : o.dur ≤ f.dur <;> simp [h1, h2]

example : Core.backdateCa (some ⟨5, 2, 2, 1, 2, []⟩) 5 ⟨3, 1, []⟩ = 2 := by decide

theorem genlogic_coreacc_backdate (old : Option CoreAcc.Memo) (v : Nat) (f : CoreAcc.Frame) :
    CoreAcc.backdateCa old v f =
      match old with
      | none => f.ca
      | some o => (backdate_if_appropriate
          (plainBackdateIn o.dur f.dur (decide (o.value = v)) o.ca f.ca)).1 := by
  cases old with
  | none => rfl
  | some o =>
    simp only [CoreAcc.backdateCa, backdate_if_appropriate, source_changed, backdated, can_backdate,
      backdate_to, participant_keeps_stamp, participant_stamp, plainBackdateIn]
    by_cases h1 : o.value = v <;> by_cases h2 : o.dur ≤ f.dur <;> simp [h1, h2]

/-- `Core3.canBackdate` is the generated `backdated`; `values_equal` of a `no_eq` function is
    constantly false, an evicted old value is `None` -/
theorem genlogic_core3_canBackdate (kd : Core3.Kind) (o : Core3.Memo) (v : Nat) (f : Core3.Frame) :
    Core3.canBackdate kd o v f =
      backdated (plainBackdateIn o.dur f.dur (decide (kd ≠ .noeq) && decide (o.value = some v))
        o.ca f.ca) := by
  simp only [Core3.canBackdate, backdated, can_backdate, plainBackdateIn]
  by_cases h1 : kd ≠ .noeq <;> by_cases h2 : o.value = some v <;> by_cases h3 : o.dur ≤ f.dur <;>
    simp [h1, h2, h3]

theorem genlogic_core3_backdate (kd : Core3.Kind) (old : Option Core3.Memo) (v : Nat) (f : Core3.Frame) :
    Core3.backdateCa kd old v f =
      match old with
      | none => f.ca
      | some o => (backdate_if_appropriate
          (plainBackdateIn o.dur f.dur (decide (kd ≠ .noeq) && decide (o.value = some v)) o.ca f.ca)).1 := by
  cases old with
  | none => rfl
  | some o =>
    simp only [Core3.backdateCa, genlogic_core3_canBackdate, backdate_if_appropriate, source_changed,
      backdate_to, participant_keeps_stamp, participant_stamp, plainBackdateIn]
    split <;> simp_all

/-- closed form of the branch added by "keep changed_at of former cycle participants monotone":
    taken when the value is NOT backdated, the old memo took part in a cycle and its stamp is
    later than the new one; the old stamp is kept -/
theorem genlogic_participant_keeps_stamp (b : BackdateIn) :
    participant_keeps_stamp b = (b.oldWasCycleParticipant && decide (b.newChangedAt < b.oldChangedAt)) ∧
    participant_stamp b = b.oldChangedAt := by
  simp [participant_keeps_stamp, participant_stamp]

/-- the `changed_at` of a former cycle participant never moves backwards: whenever the old memo
    took part in a cycle (and this is not the `Assigned → computed` case, which stamps with the
    current revision), the new memo's `changed_at` is at least the old one — backdated or not -/
theorem genlogic_participant_changed_at_monotone (b : BackdateIn)
    (hp : b.oldWasCycleParticipant = true) (hs : source_changed b = false) :
    b.oldChangedAt ≤ (backdate_if_appropriate b).1 := by
  simp only [backdate_if_appropriate, hs, participant_keeps_stamp, participant_stamp, backdate_to, hp]
  by_cases h1 : backdated b = true
  · simp [h1]
  · by_cases h2 : b.oldChangedAt > b.newChangedAt
    · simp [h1, h2]
    · simp [h1, h2]; omega

/-- … and a memo that never took part in a cycle is stamped exactly as before that branch existed -/
theorem genlogic_nonparticipant_unaffected (b : BackdateIn) (hp : b.oldWasCycleParticipant = false) :
    backdate_if_appropriate b =
      if source_changed b then
        ((if backdated b then source_changed_same_value b else source_changed_other_value b), false)
      else if backdated b then (backdate_to b, backdate_violation b)
      else (b.newChangedAt, false) := by
  simp [backdate_if_appropriate, participant_keeps_stamp, hp]

example : (backdate_if_appropriate { plainBackdateIn 0 0 false 7 3 with oldWasCycleParticipant := true }).1 = 7 ∧
    (backdate_if_appropriate (plainBackdateIn 0 0 false 7 3)).1 = 3 := by decide

/-- `CoreSpec.backdate` (new `changed_at`, backdate violation) is the generated
    `backdate_if_appropriate`, including the `Assigned → computed` branch -/
theorem genlogic_corespec_backdate (old : Option CoreSpec.Memo) (newAssigned : Bool)
    (v : CoreSpec.Val) (hg : Option Nat) (fca fdur cur : Nat) :
    CoreSpec.backdate old newAssigned v hg fca fdur cur =
      match old with
      | none => (fca, false)
      | some o => backdate_if_appropriate (specBackdateIn o newAssigned v hg fca fdur cur) := by
  cases old with
  | none => rfl
  | some o =>
    simp only [CoreSpec.backdate, backdate_if_appropriate, source_changed, backdated, can_backdate,
      backdate_to, backdate_violation, source_changed_same_value, source_changed_other_value,
      participant_keeps_stamp, participant_stamp, specBackdateIn]
    cases newAssigned <;> by_cases ho : o.origin.isSome = true <;>
      by_cases h1 : o.dur ≤ fdur <;> by_cases h2 : o.value = v <;> by_cases h3 : o.hgen = hg <;>
      simp [ho, h1, h2, h3]

/-! ## 2. shallow / deep verification (src/function/maybe_changed_after.rs, src/function/fetch.rs) -/

/-- closed form of the generated `shallow_verify_memo` (+ `_cold`) -/
theorem genlogic_shallow_spec (m : MemoIn) :
    shallow_verify_memo m =
      if m.verifiedAt = m.currentRevision then ShallowUpdate_Verified
      else if m.lastChangedRevision m.durability ≤ m.verifiedAt then ShallowUpdate_HigherDurability
      else ShallowUpdate_No := by
  simp only [shallow_verify_memo, shallow_verify_memo_cold, ShallowUpdate_Verified,
    ShallowUpdate_HigherDurability, ShallowUpdate_No]
  by_cases h1 : m.verifiedAt = m.currentRevision <;>
    by_cases h2 : m.lastChangedRevision m.durability ≤ m.verifiedAt <;> simp [h1, h2]

/-- `yes()` holds exactly for the two positive answers -/
theorem genlogic_yes_iff (u : Nat) :
    ShallowUpdate.yes u = true ↔ u = ShallowUpdate_Verified ∨ u = ShallowUpdate_HigherDurability := by
  simp [ShallowUpdate.yes, ShallowUpdate_Verified, ShallowUpdate_HigherDurability]

/-- only `HigherDurability` marks the memo as verified (`update_shallow`) -/
theorem genlogic_update_shallow_marks (u : Nat) :
    update_shallow_marks u = decide (u = ShallowUpdate_HigherDurability) := by
  unfold update_shallow_marks ShallowUpdate_HigherDurability; rfl

/-- a memo that is not provisional passes `validate_may_be_provisional` at its first statement:
    this is why `plainMemoIn` sets `validateMayBeProvisional := true` -/
theorem genlogic_validate_final (m : MemoIn) (h : m.mayBeProvisional = false) :
    validate_not_provisional m = true := by
  simp [validate_not_provisional, h]

example : validate_not_provisional (plainMemoIn 1 2 (fun _ => 1) 0 1 true) = true := by decide

/-- the edges of a memo are compared with its `verified_at` — not with `changed_at` -/
theorem genlogic_deep_edge_revision (m : MemoIn) : deep_edge_revision_of m = m.verifiedAt := by
  simp [deep_edge_revision_of, deep_edge_revision, deep_edges_old_verified_at, deep_verified_at]

/-- an evicted memo (`value = None`) is never returned by `fetch_cold` -/
theorem genlogic_evicted_not_reused (m : MemoIn) (verified : Bool) (h : m.hasValue = false) :
    fetch_cold_reuses m verified = false := by
  simp [fetch_cold_reuses, h]

/-- a re-executed memo that is still provisional counts as changed whatever its `changed_at` -/
theorem genlogic_reexecuted_provisional (m : MemoIn) (rev : Nat) (h : m.mayBeProvisional = true) :
    reexecuted_changed m rev = true := by
  simp [reexecuted_changed, h]

theorem genlogic_reexecuted_final (m : MemoIn) (rev : Nat) (h : m.mayBeProvisional = false) :
    reexecuted_changed m rev = decide (m.changedAt > rev) := by
  simp [reexecuted_changed, reexecuted_changed_at, h]

/-- closed forms of the remaining generated conditions.  The engine models above are cycle-free
    (`mayBeProvisional = false` throughout), so the role of `may_be_provisional()` in these
    conditions is pinned here: a provisional memo never takes the hot path of `fetch` /
    `maybe_changed_after`, is never deep-verified, and is never re-executed by
    `maybe_changed_after_cold`. -/
theorem genlogic_provisional_guards (m : MemoIn) (u rev : Nat) :
    hot_applies m u = (ShallowUpdate.yes u && !m.mayBeProvisional) ∧
    fetch_hot_applies m u = (ShallowUpdate.yes u && !m.mayBeProvisional) ∧
    verify_shallow_applies m u = (ShallowUpdate.yes u && m.validateMayBeProvisional) ∧
    deep_is_provisional m = m.mayBeProvisional ∧
    cold_may_reexecute m = !m.mayBeProvisional ∧
    cold_evicted m = !m.hasValue ∧
    hot_changed m rev = decide (m.changedAt > rev) ∧
    cold_verified_changed m rev = (decide (m.changedAt > rev) || m.mayBeProvisional) := by
  simp [hot_applies, fetch_hot_applies, verify_shallow_applies, deep_is_provisional,
    cold_may_reexecute, cold_evicted, hot_changed, cold_verified_changed]

/-- a memo accepted by `verify_memo` (possibly a provisional one that `validate_same_iteration`
    let through) is reported as changed whenever it is provisional, whatever its `changed_at`;
    for a final memo the verdict is `changed_at > revision` -/
theorem genlogic_verified_provisional_is_changed (m : MemoIn) (rev : Nat) :
    (m.mayBeProvisional = true → cold_verified_changed m rev = true) ∧
    (m.mayBeProvisional = false → cold_verified_changed m rev = decide (m.changedAt > rev)) := by
  constructor <;> intro h <;> simp [cold_verified_changed, h]

theorem genlogic_panic_participant (m : MemoIn) (p : Bool) :
    deep_panic_participant m p = (p && m.wasCycleParticipant) := by
  simp [deep_panic_participant]

theorem genlogic_fetch_cold_reuses (m : MemoIn) (verified : Bool) :
    fetch_cold_reuses m verified = (m.hasValue && verified) := by
  simp [fetch_cold_reuses]

/-- `Core3.sokB` ("passes the shallow test") is `shallow_verify_memo(..).yes()` -/
theorem genlogic_core3_sokB (s : Core3.State) (m : Core3.Memo) :
    Core3.sokB s m = ShallowUpdate.yes (shallow_verify_memo (Core3.memoIn s m)) := by
  simp only [Core3.sokB, genlogic_shallow_spec, Core3.memoIn, plainMemoIn, ShallowUpdate.yes,
    ShallowUpdate_Verified, ShallowUpdate_HigherDurability, ShallowUpdate_No]
  by_cases h1 : m.va = s.cur <;> by_cases h2 : Core3.lc s m.dur ≤ m.va <;> simp [h1, h2]

/-! ### whole steps of the models, re-assembled from generated decisions -/

private theorem shallow_core (s : Core.State) (m : Core.Memo) :
    shallow_verify_memo (Core.memoIn s m) =
      if m.va = s.cur then 0 else if Core.lc s m.dur ≤ m.va then 1 else 2 := by
  simp [genlogic_shallow_spec, Core.memoIn, plainMemoIn, ShallowUpdate_Verified,
    ShallowUpdate_HigherDurability, ShallowUpdate_No]

/-- `Core.fetchStep` (fetch_hot / fetch_cold / verify_memo / deep_verify_memo) decides exactly as
    the generated conditions do -/
theorem genlogic_core_fetchStep (fe : Core.FetchFn) (mc : Core.McaFn) (P : Nat → Core.Body)
    (s : Core.State) (q : Nat) : Core.fetchStep fe mc P s q = Core.fetchStepG fe mc P s q := by
  unfold Core.fetchStep Core.fetchStepG
  cases hm : s.memos q with
  | none => rfl
  | some m =>
    simp only [shallow_core, Core.deepVerifyG, Core.updateShallow, genlogic_deep_edge_revision]
    by_cases h1 : m.va = s.cur <;> by_cases h2 : Core.lc s m.dur ≤ m.va <;>
      simp [h1, h2, fetch_hot_applies, verify_shallow_applies, fetch_cold_reuses, ShallowUpdate.yes,
        update_shallow_marks, deep_is_provisional, deep_panic_participant, Core.memoIn, plainMemoIn]

/-- `Core.mcaStep` (maybe_changed_after_hot / _cold) decides exactly as the generated conditions -/
theorem genlogic_core_mcaStep (fe : Core.FetchFn) (mc : Core.McaFn) (P : Nat → Core.Body)
    (s : Core.State) (q rev : Nat) : Core.mcaStep fe mc P s q rev = Core.mcaStepG fe mc P s q rev := by
  unfold Core.mcaStep Core.mcaStepG
  cases hm : s.memos q with
  | none => rfl
  | some m =>
    simp only [Core.fetchStep, hm, shallow_core, Core.deepVerifyG, Core.updateShallow,
      genlogic_deep_edge_revision]
    by_cases h1 : m.va = s.cur <;> by_cases h2 : Core.lc s m.dur ≤ m.va <;>
      simp [h1, h2, hot_applies, hot_changed, verify_shallow_applies, cold_verified_changed,
        cold_may_reexecute, cold_evicted, reexecuted_changed, reexecuted_changed_at,
        ShallowUpdate.yes, update_shallow_marks, deep_is_provisional, deep_panic_participant,
        Core.memoIn, plainMemoIn] <;>
      split <;> simp_all

private theorem shallow_core3 (s : Core3.State) (m : Core3.Memo) :
    shallow_verify_memo (Core3.memoIn s m) =
      if m.va = s.cur then 0 else if Core3.lc s m.dur ≤ m.va then 1 else 2 := by
  simp [genlogic_shallow_spec, Core3.memoIn, plainMemoIn, ShallowUpdate_Verified,
    ShallowUpdate_HigherDurability, ShallowUpdate_No]

/-- `Core3.deepVerify` = the generated pre-checks + the edge walk against `verified_at` -/
theorem genlogic_core3_deepVerify (mc : Core3.McaFn) (s : Core3.State) (m : Core3.Memo) :
    Core3.deepVerify mc s m = Core3.deepVerifyG mc s m := by
  simp [Core3.deepVerify, Core3.deepVerifyG, genlogic_deep_edge_revision, deep_is_provisional,
    deep_panic_participant, Core3.memoIn, plainMemoIn]

theorem genlogic_core3_refreshStep (fe : Core3.FetchFn) (mc : Core3.McaFn) (P : Core3.Prog)
    (s : Core3.State) (q : Nat) : Core3.refreshStep fe mc P s q = Core3.refreshStepG fe mc P s q := by
  unfold Core3.refreshStep Core3.refreshStepG
  cases hm : s.memos q with
  | none => rfl
  | some m =>
    dsimp only
    cases hv : m.value with
    | none => rfl
    | some v =>
      simp only [shallow_core3, ← genlogic_core3_deepVerify, Core3.updateShallow]
      by_cases h1 : m.va = s.cur <;> by_cases h2 : Core3.lc s m.dur ≤ m.va <;>
        simp [h1, h2, hv, fetch_hot_applies, verify_shallow_applies, fetch_cold_reuses,
          ShallowUpdate.yes, update_shallow_marks, Core3.memoIn, plainMemoIn]

theorem genlogic_core3_mcaStep (fe : Core3.FetchFn) (mc : Core3.McaFn) (P : Core3.Prog)
    (s : Core3.State) (q rev : Nat) :
    Core3.mcaStep fe mc P s q rev = Core3.mcaStepG fe mc P s q rev := by
  unfold Core3.mcaStep Core3.mcaStepG
  cases hm : s.memos q with
  | none => rfl
  | some m =>
    simp only [shallow_core3, ← genlogic_core3_deepVerify, Core3.updateShallow]
    by_cases h1 : m.va = s.cur <;> by_cases h2 : Core3.lc s m.dur ≤ m.va <;>
      simp [h1, h2, hot_applies, hot_changed, verify_shallow_applies, cold_verified_changed,
        cold_may_reexecute, cold_evicted, reexecuted_changed, reexecuted_changed_at,
        ShallowUpdate.yes, update_shallow_marks, Core3.memoIn, plainMemoIn] <;>
      split <;> cases hv : m.value <;> simp_all

/-- non-vacuity: a memo verified in an earlier revision whose durability saw no write is
    shallow-verified (`HigherDurability`), one whose durability saw a write is not -/
example : shallow_verify_memo (plainMemoIn 2 5 (fun d => if d = 0 then 5 else 1) 1 1 true) = 1 ∧
    shallow_verify_memo (plainMemoIn 2 5 (fun d => if d = 0 then 5 else 1) 0 1 true) = 2 ∧
    shallow_verify_memo (plainMemoIn 5 5 (fun d => if d = 0 then 5 else 1) 0 1 true) = 0 := by decide

/-! ## 3. the claim protocol (src/function/maybe_changed_after.rs: `maybe_changed_after_cold::inner`,
    src/function/fetch.rs: `fetch_cold`, `refresh_memo`)

  What each outcome of `sync_table.try_claim` leads to is generated from the match arms
  (`ClaimArm`), the position of the memo-table reads relative to the claim from the statement
  order; the retry loops of `maybe_changed_after` / `refresh_memo` and `verify_memo` are pinned
  verbatim by the generator.  These are the protocol facts the C16 / C17 / C18 arguments use. -/

/-- `maybe_changed_after`: a thread that found the query `Running` blocks, ignores what
    `block_on` returns, reads no memo, and leaves with `Retry`, which gives the caller's loop no
    answer (`None`): after a wake-up the ONLY continuation is to start over — a fresh table read,
    the hot test, a new claim — whatever the table contains. -/
theorem genlogic_mca_running_retries :
    mca_on_running = { blocks := true, blockResultIgnored := true, memoReads := 0, exit := .retry } ∧
    mca_retry_is_no_answer = true ∧
    (∀ checksFinal, mca_on_running.exit ≠ .answerFromMemo checksFinal) := by
  refine ⟨by decide, by decide, ?_⟩
  intro c; cases c <;> decide

/-- `fetch`: same for `fetch_cold` (`return None` makes `refresh_memo` loop) -/
theorem genlogic_fetch_running_retries :
    fetch_on_running = { blocks := true, blockResultIgnored := true, memoReads := 0, exit := .retry } ∧
    (∀ checksFinal, fetch_on_running.exit ≠ .answerFromMemo checksFinal) := by
  refine ⟨by decide, ?_⟩
  intro c; cases c <;> decide

/-- claim first, then look the memo up again: no memo-table read precedes `try_claim` in either
    function, the `Claimed` arm just yields the guard, and the very next statement re-reads the
    memo (exactly one read after the claim) -/
theorem genlogic_claim_before_lookup :
    mca_memo_reads_before_claim = 0 ∧ fetch_memo_reads_before_claim = 0 ∧
    mca_on_claimed = { blocks := false, blockResultIgnored := true, memoReads := 0, exit := .continue_ } ∧
    fetch_on_claimed = { blocks := false, blockResultIgnored := true, memoReads := 0, exit := .continue_ } ∧
    mca_rereads_after_claim = true ∧ fetch_rereads_after_claim = true ∧
    mca_memo_reads_after_claim = 1 ∧ fetch_memo_reads_after_claim = 1 := by decide

/-- a `Cycle` outcome goes to the cycle handler without blocking or reading a memo; there are
    exactly the three arms; `maybe_changed_after` denies re-entrancy, `fetch` allows it -/
theorem genlogic_claim_cycle :
    mca_on_cycle = { blocks := false, blockResultIgnored := true, memoReads := 0, exit := .cycle } ∧
    fetch_on_cycle = { blocks := false, blockResultIgnored := true, memoReads := 0, exit := .cycle } ∧
    mca_claim_arms = 3 ∧ fetch_claim_arms = 3 ∧
    mca_reentrancy_allowed = false ∧ fetch_reentrancy_allowed = true := by decide

/-- what precedes returning the old memo after a successful claim: it has a value and
    `verify_memo` accepted it, and `verify_memo` accepts on its shallow branch only if
    `shallow_verify_memo` said yes AND `validate_may_be_provisional` holds -/
theorem genlogic_fetch_claimed_checks (m : MemoIn) (u : Nat) (verified : Bool) :
    (fetch_cold_reuses m verified = true → m.hasValue = true ∧ verified = true) ∧
    (verify_shallow_applies m u = true →
      ShallowUpdate.yes u = true ∧ m.validateMayBeProvisional = true) := by
  simp [fetch_cold_reuses, verify_shallow_applies]

end SalsaVerif.Props.GenLogic
