/-
  C20 — writes exclude and cancel readers; no mixing of revisions.
  Model: SalsaVerif/Model/Cancel.lean part (1) (writer/reader machine of `cancel_others`).

  NOT YET PROVED (not part of this module):
    c20_no_mix : a value returned by `fetch` comes from a memo verified at `cur` of the epoch the
      reader ran in — this is C01 `fetch_sound` (Core engine) combined with
      `c20_no_stale_provisional` below; it lives with the Core proofs.
  Assumptions of the model (DESIGN §C20 Limits): the condvar and `Arc::get_mut` are trusted;
  fairness of the scheduler is the explicit hypothesis `hfair` of `c20_writer_progress`.
-/
import SalsaVerif.Proofs.CancelLemmas

namespace SalsaVerif.Props.C20
open SalsaVerif.Model.Cancel SalsaVerif.Proofs.CancelLemmas

/-- In every reachable state `clones` = number of live handles (the writer's own + the live
    readers), the cancellation count is a `u8`, the flag is set exactly between `setFlag` and
    `resetFlag`, and once the writer is past its wait it is alone: `clones = 1`, no live reader,
    and it stays that way until the write is done (no step can create a handle meanwhile). -/
theorem c20_exclusive (s : State) (hr : Reachable s) :
    s.clones = 1 + liveCount s.readers ∧
    s.cc < 2^8 ∧
    (s.flag = true ↔ (s.phase = .flagSet ∨ s.phase = .awaited)) ∧
    (s.phase.pastAwait = true → s.clones = 1 ∧ liveCount s.readers = 0 ∧
      ∀ p w, step s (.cloneHandle p w) = none) := by
  have hinv := inv_reachable s hr
  obtain ⟨hcl, hcc, hpa, hfl⟩ := hinv
  refine ⟨hcl, hcc, ?_, ?_⟩
  · rw [hfl]; cases s.phase <;> simp
  · intro hp
    have h0 := hpa hp
    refine ⟨by omega, h0, ?_⟩
    intro p w
    cases hstep : step s (.cloneHandle p w) with
    | none => rfl
    | some s' =>
      exfalso
      have hinv' := inv_step s s' _ ⟨hcl, hcc, hpa, hfl⟩ hstep
      simp only [step, cloneHandle] at hstep
      split at hstep
      · simp only [Option.some.injEq] at hstep
        subst hstep
        have := hinv'.2.2.1 hp
        rw [liveCount_eq, sumBy_append] at this
        simp at this
      · cases hstep

-- two readers, one finished; the writer has waited for the other one and is now alone
example : ∃ s, Reachable s ∧ s.phase = .flagReset ∧ s.clones = 1 ∧ s.readers.length = 2 ∧ s.cur = 1 :=
  ⟨_, ⟨[.cloneHandle none 3, .cloneHandle (some 0) 1, .fetchStep 0, .fetchStep 1, .finish 1, .setFlag,
        .fetchStep 0, .finish 0, .await, .resetFlag], rfl⟩, rfl, rfl, rfl, rfl⟩

/-- while the flag is set, the next fetch step of *any* reader unwinds with `PendingWrite`: it
    does no work, abandons what was left, and the only step left to that reader is dropping its
    handle (which is enabled). -/
theorem c20_readers_cancel (s : State) (i : Nat) (hflag : s.flag = true) :
    (∀ o s', fetchStep s i = some (o, s') →
      o = .unwindPendingWrite ∧
      (∃ r, s'.readers[i]? = some r ∧ r.unwound = true ∧ r.work = 0 ∧ r.live = true) ∧
      fetchStep s' i = none ∧ (finish s' i).isSome = true ∧ s'.flag = true) ∧
    (∀ r, s.readers[i]? = some r → r.live = true → 0 < r.work → (fetchStep s i).isSome = true) := by
  refine ⟨?_, fun r hr hl hw => fetchStep_enabled s i r hr hl hw⟩
  intro o s' h
  obtain ⟨r, hr, hl, hw, hcase⟩ := fetchStep_cases s i o s' h
  rcases hcase with ⟨_, ho, hs'⟩ | ⟨hf, _, _⟩
  · subst hs'
    have hlen : i < s.readers.length := by
      rcases Nat.lt_or_ge i s.readers.length with h | h
      · exact h
      · rw [List.getElem?_eq_none h] at hr; cases hr
    have hget : (setReader s i { r with work := 0, unwound := true }).readers[i]? =
        some { r with work := 0, unwound := true } := by
      simp [setReader, List.getElem?_set_self hlen]
    refine ⟨ho, ⟨_, hget, rfl, rfl, hl⟩, ?_, ?_, hflag⟩
    · unfold fetchStep; rw [hget]; simp
    · exact finish_enabled _ i _ hget hl
  · rw [hflag] at hf; cases hf

example : ∃ s, Reachable s ∧ s.flag = true ∧ fetchStep s 0 ≠ none ∧
    (fetchStep s 0).map (·.1) = some .unwindPendingWrite :=
  ⟨_, ⟨[.cloneHandle none 3, .fetchStep 0, .setFlag], rfl⟩, rfl, by decide, rfl⟩

/-- Progress of the writer's wait.  `waitMeasure` = Σ over live readers of (remaining work + 1)
    (= Σ remaining work + clones − 1) is a well-founded measure: every reader step strictly
    decreases it, and while it is non-zero some reader step is enabled (readers never wait for
    the writer).  Hence under *fairness* — hypothesis `hfair`: the schedule consists of reader
    steps and, as long as some reader is live, the scheduled step is an enabled one, i.e. every
    reader keeps taking steps — after at most `waitMeasure s` steps all readers have dropped
    their handles, `clones = 1`, and the writer's `await` is enabled. -/
theorem c20_writer_progress (s : State) (hr : Reachable s) (hph : s.phase = .flagSet)
    (sched : Nat → Label) (hreaders : ∀ k, (sched k).isReader = true)
    (hfair : ∀ k sk, runSched s sched k = some sk → waitMeasure sk ≠ 0 → (step sk (sched k)).isSome = true) :
    (∀ s1 l s2, step s1 l = some s2 → l.isReader = true → waitMeasure s2 < waitMeasure s1) ∧
    (∀ s1, waitMeasure s1 ≠ 0 → ∃ i, (step s1 (.finish i)).isSome = true) ∧
    ∃ k sk, k ≤ waitMeasure s ∧ runSched s sched k = some sk ∧ sk.clones = 1 ∧
      (step sk .await).isSome = true := by
  refine ⟨fun s1 l s2 h hl => measure_reader_step s1 s2 l hl h,
    fun s1 h => (reader_step_enabled s1 h).imp fun _ h => h.1, ?_⟩
  obtain ⟨k, sk, hk, hrun, hz, hp⟩ := progress_aux (waitMeasure s) s sched (Nat.le_refl _) hreaders hfair
  have hinvk : SInv sk := by
    have : ∀ k sk, runSched s sched k = some sk → SInv sk := by
      intro k
      induction k with
      | zero => intro sk h; simp only [runSched, Option.some.injEq] at h; subst h; exact inv_reachable s hr
      | succ k ih =>
        intro sk h
        simp only [runSched] at h
        split at h
        · next s' h' => exact inv_step s' sk _ (ih s' h') h
        · cases h
    exact this k sk hrun
  have hl0 : liveCount sk.readers = 0 := (measure_zero_iff sk).1 hz
  have hc1 : sk.clones = 1 := by rw [hinvk.1, hl0]
  refine ⟨k, sk, hk, hrun, hc1, ?_⟩
  simp [step, hp, hph, hc1]

-- one reader with two units of work left when the flag is set: it unwinds at its next fetch
-- step, drops its handle, and the await is enabled after 2 ≤ waitMeasure = 3 steps.
example : ∃ s, Reachable s ∧ s.phase = .flagSet ∧ waitMeasure s = 3 ∧
    ∃ sched : Nat → Label, (∀ k, (sched k).isReader = true) ∧
      (∀ k sk, runSched s sched k = some sk → waitMeasure sk ≠ 0 → (step sk (sched k)).isSome = true) := by
  refine ⟨State.mk 2 true 0 1 [⟨2, true, false⟩] .flagSet,
    ⟨[.cloneHandle none 3, .fetchStep 0, .setFlag], rfl⟩, rfl, rfl,
    fun k => if k = 0 then .fetchStep 0 else .finish 0, ?_, ?_⟩
  · intro k; by_cases h : k = 0 <;> simp [h, Label.isReader]
  · intro k sk h hm
    match k with
    | 0 => simp only [runSched, Option.some.injEq] at h; subst h; rfl
    | 1 => cases h; rfl
    | 2 => cases h; exact absurd rfl hm
    | k + 3 =>
      -- after the two steps no reader is live and no reader step is enabled: the schedule has no
      -- state from here on
      rw [Nat.add_comm, runSched_none_add _ _ 3 rfl k] at h
      cases h

/-- `(current revision, cancellation count)` never decreases, strictly increases
    (lexicographically) at the `bump_cancellation_count` of every `cancel_others` — also on `u8`
    overflow, where the revision is bumped instead — and hence across every run that contains one. -/
theorem c20_epoch_mono (s s' : State) (ls : List Label) (hrun : run s ls = some s') :
    epochLe (epoch s) (epoch s') ∧
    (Label.bumpCc ∈ ls → epochLt (epoch s) (epoch s')) ∧
    (∀ s1 s2, step s1 .bumpCc = some s2 → epochLt (epoch s1) (epoch s2)) :=
  ⟨(epoch_run ls s s' hrun).1, (epoch_run ls s s' hrun).2,
   fun s1 s2 h => (epoch_step s1 s2 .bumpCc h).2 rfl⟩

-- a complete write with cc = 255: the count overflows, the revision is bumped instead
example : ∃ s s', s.cc = 255 ∧ s.cur = 7 ∧
    run s [.setFlag, .await, .resetFlag, .bumpCc, .write .lruCapacity] = some s' ∧
    epoch s = (7, 255) ∧ epoch s' = (8, 0) ∧ epochLt (epoch s) (epoch s') :=
  ⟨⟨1, false, 255, 7, [], .idle⟩, _, rfl, rfl, rfl, rfl, rfl, by decide⟩

example : ∃ s', run State.init [.setFlag, .await, .resetFlag, .bumpCc, .write .lruCapacity] = some s' ∧
    epoch State.init = (1, 0) ∧ epoch s' = (1, 1) :=
  ⟨_, rfl, rfl, rfl⟩

/-- A provisional memo is usable only in the epoch it was created in; so a provisional memo
    created before a `cancel_others` (in `s0`, or in any earlier epoch) is never usable in a
    state reached after it — whatever the iteration counts are. -/
theorem c20_no_stale_provisional (s : State) (headIteration : Nat) (m : ProvisionalMemo) :
    (usableProvisional s headIteration m = true → m.epoch = epoch s) ∧
    (∀ s0 ls, epochLe m.epoch (epoch s0) → run s0 ls = some s → Label.bumpCc ∈ ls →
      usableProvisional s headIteration m = false) := by
  have h1 : usableProvisional s headIteration m = true → m.epoch = epoch s := by
    intro h
    simp only [usableProvisional, cancellationCount, Bool.and_eq_true, beq_iff_eq] at h
    simp only [ProvisionalMemo.epoch, epoch, h.1.1, h.1.2]
  refine ⟨h1, ?_⟩
  intro s0 ls hle hrun hmem
  cases hu : usableProvisional s headIteration m with
  | false => rfl
  | true =>
    exfalso
    have hlt := epochLt_of_le_of_lt hle ((epoch_run ls s0 s hrun).2 hmem)
    rw [h1 hu] at hlt
    exact epochLt_irrefl _ hlt

-- a provisional memo of iteration 0 inserted in the initial state is usable there, and not after a
-- revision-preserving cancellation (`set_lru_capacity`), although `verified_at` still equals `cur`.
example : ∃ s', run State.init [.setFlag, .await, .resetFlag, .bumpCc, .write .lruCapacity] = some s' ∧
    usableProvisional State.init 0 (provisionalAt State.init 0) = true ∧
    (provisionalAt State.init 0).verifiedAt = s'.cur ∧
    usableProvisional s' 0 (provisionalAt State.init 0) = false :=
  ⟨_, rfl, rfl, rfl, rfl⟩

end SalsaVerif.Props.C20
