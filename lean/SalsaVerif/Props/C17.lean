/-
  C17 — at most one execution per key per revision (no cycles, no panics, no cancellation).
  Model: SalsaVerif/Model/SyncExec.lean = the sync table / wait-for graph model of C19
  (Model/SyncDG.lean) plus the ghost counter `execCount`, the memo flag and the `executing` marker.
  The hypotheses "no cycles / panics / cancellation" are the enabling conditions of `xstep`
  (`protoOk`, and `ExecBegin` not re-entered by the thread already executing the key); the mutual
  exclusion between threads is NOT assumed, it is derived from the sync table.
  By induction over arbitrary finite sequences of `XOp`s, any number of threads and keys.

  NOT YET PROVED: several revisions (`newRevision` resetting counters and memos), eviction (LRU), the
  link `Recheck` ↔ `memo` to the engine model (here `memo k` is exactly "a `Publish k` happened").
-/
import SalsaVerif.Proofs.SyncExec

namespace SalsaVerif.Props.C17
open SalsaVerif.Model.SyncDG SalsaVerif.Model.SyncExec SalsaVerif.Proofs.SyncExec

/-- Every key is executed at most once. -/
theorem c17_once (ops : List XOp) (x : XState) (h : xrun xinit ops = some x) (k : Nat) :
    x.execCount k ≤ 1 := by
  have hi := xrun_inv ops xinit x XInv_init h
  rw [hi.count k]
  split <;> omega

/-- The invariant behind it (DESIGN.md C17): a key that has been executed and is no longer claimed
    has a memo verified in this revision; while it is being executed the executing thread holds
    the claim; two threads never execute the same key at the same time. -/
theorem c17_executed_then_memo (ops : List XOp) (x : XState) (h : xrun xinit ops = some x) (k : Nat) :
    (x.execCount k = 1 → x.base.sync k = none → x.memo k = true) ∧
    (∀ t, x.executing k = some t → ownedBy x.base k t = true) ∧
    (x.memo k = true → x.executing k = none) := by
  have hi := xrun_inv ops xinit x XInv_init h
  refine ⟨?_, hi.owner k, hi.excl k⟩
  intro hc hs
  rw [hi.count k] at hc
  cases hm : x.memo k with
  | true => rfl
  | false =>
    cases he : x.executing k with
    | none => simp [hm, he] at hc
    | some t =>
      have := hi.owner k t he
      simp [ownedBy, hs] at this

/-- A second `ExecBegin` of an executed key is never enabled again, by any thread. -/
theorem c17_no_second_exec (ops : List XOp) (x : XState) (h : xrun xinit ops = some x) (t k : Nat)
    (hc : x.execCount k = 1) : xstep x (.execBegin t k) = none := by
  have hi := xrun_inv ops xinit x XInv_init h
  cases hs : xstep x (.execBegin t k) with
  | none => rfl
  | some x' =>
    have hi' := xstep_inv hi hs
    have h1 : x'.execCount k = 2 := by
      simp only [xstep] at hs
      split at hs
      · simp only [Option.some.injEq] at hs
        subst hs
        simp [hc]
      · cases hs
    have h2 : x'.execCount k ≤ 1 := by
      rw [hi'.count k]; split <;> omega
    omega

/-- Non-vacuity: t0 claims k1, executes and publishes it while t1 blocks on the claim; t0 releases
    (t1 is woken), t1 claims k1, its re-check finds the memo, so its `ExecBegin` is not enabled. -/
def demo : List XOp :=
  [.proto (.claim 0 1 false true), .execBegin 0 1, .proto (.claim 1 1 false true), .publish 0 1,
   .proto (.release 0 1 .completed), .proto (.wake 1), .proto (.claim 1 1 false true)]

example : ((xrun xinit demo).map fun x => (x.execCount 1, x.memo 1, x.executing 1,
    (xstep x (.execBegin 1 1)).isSome)) = some (1, true, none, false) := by decide
-- while t0 executes, t1 (which does not hold the claim) cannot start a second execution
example : ((xrun xinit (demo.take 3)).map fun x => (x.execCount 1, x.executing 1, status x.base 1,
    (xstep x (.execBegin 1 1)).isSome)) = some (1, some 0, .blocked, false) := by decide
-- a release before `Publish` (the panic path) is outside the hypotheses: not enabled
example : ((xrun xinit (demo.take 2)).map fun x => (xstep x (.proto (.release 0 1 .completed))).isSome) =
    some false := by decide

end SalsaVerif.Props.C17
