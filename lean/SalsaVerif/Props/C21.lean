/-
  C21 — local cancellation.  Model: SalsaVerif/Model/Cancel.lean part (2) (`Token`, `Local`,
  `Family`), built on the generated token operations of Gen/Consts.lean.

  NOT YET PROVED (not part of this module):
    c21_waiters_retry : a waiter whose `block_on` result is `Cancelled` does not unwind and its
      retry computes the value — needs Model/Sync (`releasePanicking`) and C16 `c16_values`.
-/
import SalsaVerif.Proofs.TokenLemmas

namespace SalsaVerif.Props.C21
open SalsaVerif.Gen.Consts SalsaVerif.Model.Cancel SalsaVerif.Proofs.TokenLemmas

/-- `should_trigger_local_cancellation` (bits = CANCELLED_MASK) fires exactly when the token is
    cancelled and cancellation is not disabled — on every token whose bits are below 4 … -/
theorem c21_trigger_iff (t : Token) (hwf : t.WF) :
    (t.shouldTrigger = true ↔ t.bits = CancellationToken.CANCELLED_MASK) ∧
    (t.shouldTrigger = true ↔ (t.isCancelled = true ∧ t.isDisabled = false)) :=
  ⟨by simp [Token.shouldTrigger, CancellationToken.should_trigger_local_cancellation],
   bits_trigger_iff t.bits hwf⟩

/-- … and every token reachable from a fresh handle by any sequence of operations is such a
    token (so the check performed by `unwind_if_revision_cancelled` is the intended one). -/
theorem c21_trigger_iff_reachable (ops : List LOp) (l : Local) (hr : Local.new.run ops = some l) :
    l.token.WF ∧ (l.check = true ↔ (l.token.isCancelled = true ∧ l.token.isDisabled = false)) := by
  have hinv := linv_run ops _ l linv_new hr
  exact ⟨hinv.1, (c21_trigger_iff l.token hinv.1).2⟩

example : ∃ l, Local.new.run [.attach, .cancel] = some l ∧ l.check = true ∧ l.token.bits = 1 :=
  ⟨_, rfl, by decide, by decide⟩

/-- while any `DisableLocalCancellationGuard` is alive (fixpoint / fallback execution), the local
    cancellation check never fires, whatever cancel calls arrive. -/
theorem c21_disabled_in_fixpoint (ops : List LOp) (l : Local) (hr : Local.new.run ops = some l)
    (hdepth : 0 < l.guardDepth) : l.check = false := by
  obtain ⟨hwf, _, _, hdis⟩ := linv_run ops _ l linv_new hr
  have hg : hasGuard l.frames = true := (filter_length_pos_iff_any _ _).1 hdepth
  rw [hg] at hdis
  exact bits_disabled_no_trigger l.token.bits hwf hdis

example : ∃ l, Local.new.run [.attach, .pushGuard, .cancel, .attach, .pushGuard, .pop, .cancel] = some l ∧
    0 < l.guardDepth ∧ l.token.isCancelled = true ∧ l.check = false :=
  ⟨_, rfl, by decide, by decide, by decide⟩

/-- LIFO guards: after `DisableLocalCancellationGuard::new` and any well-nested sequence of further
    guard pushes / attaches / drops (by return or unwind — the same `pop`) with `cancel` and
    `check` calls interleaved arbitrarily, the guard on top of the stack is the one we pushed, and
    dropping it restores the disabled bit (and the guard stack) to what it was before. -/
theorem c21_guard_restores (l l0 l1 : Local) (ops : List LOp) (hwf : l.token.WF)
    (hpush : l.step .pushGuard = some l0) (hbal : balanced 0 ops = true)
    (hrun : l0.run ops = some l1) :
    ∃ l2, l1.step .pop = some l2 ∧ l2.token.isDisabled = l.token.isDisabled ∧
      l2.frames = l.frames ∧ l0.token.isDisabled = true := by
  simp only [Local.step] at hpush
  split at hpush
  case isFalse => cases hpush
  case isTrue ha =>
  simp only [Option.some.injEq] at hpush
  subst hpush
  have hwf0 : (l.token.setDisabled true).1.bits < 4 := Token.wf_setDisabled _ hwf true
  obtain ⟨hf, h8⟩ := run_frames ops 0 _ l1 [] _ rfl rfl hwf0 hbal hrun
  refine ⟨{ l1 with token := (l1.token.setDisabled (l.token.setDisabled true).2).1, frames := l.frames }, ?_, ?_, rfl, ?_⟩
  · simp only [Local.step, hf]
  · exact Token.isDisabled_setDisabled _ h8 _
  · exact Token.isDisabled_setDisabled _ hwf true

-- nested guards, a cancel in the middle, and an unwind (three consecutive pops) out of two
-- nested scopes: the outer guard restores `disabled = false`.
example : ∃ l l0 l1 l2, Local.new.run [.attach] = some l ∧ l.step .pushGuard = some l0 ∧
    balanced 0 [.pushGuard, .cancel, .attach, .check, .pop, .pop] = true ∧
    l0.run [.pushGuard, .cancel, .attach, .check, .pop, .pop] = some l1 ∧
    l1.step .pop = some l2 ∧ l2.token.isDisabled = false ∧ l1.token.isDisabled = true ∧ l2.check = true :=
  ⟨_, _, _, _, rfl, rfl, by decide, rfl, rfl, by decide, by decide, by decide⟩

/-- when the attach depth returns to 0 (the outermost `DbGuard` is dropped, by return or unwind),
    the token is reset: bits = 0. -/
theorem c21_reset_on_outermost (ops : List LOp) (l l' : Local) (hr : Local.new.run ops = some l)
    (hpop : l.step .pop = some l') (hin : 0 < l.attachDepth) (hout : l'.attachDepth = 0) :
    l'.token.bits = 0 ∧ l'.attached = false := by
  obtain ⟨_, hok, hatt, _⟩ := linv_run ops _ l linv_new hr
  simp only [Local.attachDepth] at hin hout
  simp only [Local.step] at hpop
  split at hpop
  · cases hpop
  · next state rest hf =>
    rw [hf] at hok hatt
    simp only [framesOk, Bool.and_eq_true] at hok
    rw [hasDb_cons_db] at hatt
    have hrest : l'.frames = rest := by
      split at hpop
      · simp only [Option.some.injEq] at hpop; subst hpop; rfl
      · split at hpop <;> (simp only [Option.some.injEq] at hpop; subst hpop; rfl)
    rw [hrest] at hout
    have hnd : hasDb rest = false := (filter_length_zero_iff_any _ _).1 hout
    have hst : state = true := by
      have := hok.1; rw [hnd] at this; simpa using this
    subst hst
    simp only [hatt, Bool.and_self, if_true, Option.some.injEq] at hpop
    subst hpop
    exact ⟨rfl, rfl⟩
  · next was rest hf =>
    simp only [Option.some.injEq] at hpop; subst hpop
    rw [hf] at hin
    simp only [List.filter, Frame.isDb] at hin
    simp only at hout
    omega

example : ∃ l l', Local.new.run [.attach, .attach, .cancel, .pop] = some l ∧ l.step .pop = some l' ∧
    0 < l.attachDepth ∧ l'.attachDepth = 0 ∧ l.token.bits = 1 ∧ l'.token.bits = 0 :=
  ⟨_, _, rfl, rfl, by decide, by decide, by decide, by decide⟩

/-- a step of handle `a` leaves the token (and guard stack) of every other handle `b` unchanged. -/
theorem c21_own_handle_only (f f' : Family) (a b : Nat) (op : LOp) (hab : b ≠ a)
    (hs : f.step a op = some f') : f' b = f b := by
  unfold Family.step at hs
  cases h : (f a).step op with
  | none => rw [h] at hs; cases hs
  | some l =>
    rw [h] at hs
    simp only [Option.map_some, Option.some.injEq] at hs
    subst hs
    simp [hab]

example : ∃ f', Family.new.step 3 .cancel = some f' ∧ (f' 3).token.bits = 1 ∧ (f' 4).token.bits = 0 :=
  ⟨_, rfl, by decide, by decide⟩

/-- after `cancel`, `is_cancelled` holds, and it keeps holding along any sequence of operations
    during which the database stays attached (i.e. until the `uncancel()` of the outermost
    `DbGuard`); the only step that can clear it is that reset. -/
theorem c21_cancel_sticky (l l0 : Local) (hwf : l.token.WF) (hc : l.step .cancel = some l0) :
    l0.token.isCancelled = true ∧
    (∀ op l1, l0.step op = some l1 →
      l1.token.isCancelled = true ∨ (op = .pop ∧ l1.token = l0.token.reset ∧ l0.attached = true ∧ l1.attached = false)) ∧
    (∀ ops l1, l0.run ops = some l1 →
      (∀ k lk, l0.run (ops.take k) = some lk → lk.attached = true) → l1.token.isCancelled = true) := by
  simp only [Local.step, Option.some.injEq] at hc
  subst hc
  have hc0 : l.token.cancel.isCancelled = true := bits_cancel_cancelled _ hwf
  have hwf0 : l.token.cancel.WF := Token.wf_cancel _ hwf
  exact ⟨hc0, fun op l1 h => sticky_step _ l1 op hwf0 hc0 h,
    fun ops l1 h hatt => sticky_run ops _ l1 hwf0 hc0 h hatt⟩

example : ∃ l l0 l1, Local.new.run [.attach] = some l ∧ l.step .cancel = some l0 ∧
    l0.run [.pushGuard, .attach, .pop, .pop] = some l1 ∧ l1.attached = true ∧ l1.token.isCancelled = true :=
  ⟨_, _, _, rfl, rfl, rfl, by decide, by decide⟩

end SalsaVerif.Props.C21
