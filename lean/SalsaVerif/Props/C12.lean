/-
  C12 — fixpoint cycles reach the least fixpoint from any entry.

  Model: `SalsaVerif.Model.Cycle` (an abstraction of salsa's provisional-memo reuse: every
  participant is re-evaluated once per iteration of the outermost head; see the header there).
  Reference: `lfp P env` = Kleene iteration from ⊥ with fuel `8 * n + 1`.

  PROVED: `c12_lfp` (+ `_run`, `_history`: any entry node, any history, every memoised node),
  `c12_stop_is_fix` (+ the loop-level `c12_stop_is_lfp`), `c12_mono`, `c12_lfp_is_fix`,
  `c12_lfp_is_least`; the upper half of `c12_chain`.  Together with `C14.c14_total` a request
  for a node of a well-formed program without `FallbackImmediate` nodes ends in the value
  `lfp P env j`, or in `panic cycle` / `propagated` / `tooManyIterations` — never in anything
  else; what is not proved is that `tooManyIterations` cannot happen (`c12_terminates`).

  NOT YET PROVED (intended full statements):

  * `c12_chain` (full): for the head loop of an outermost head `j`, with `s_t` the state at the
    start of pass `t` (`s_{t+1} = stIter s1_t j new_t`),
      `∀ t c w, s_t.prov.lookup c = some w → ∃ w', s_{t+1}.prov.lookup c = some w' ∧ le w w'`.
    Proved below: `c12_chain_partial` — every provisional and every cached value of every
    reachable state is below `lfp` (the upper half), and `c12_chain_join_partial` — one loop
    step is ascending for heads whose `cycle_fn` is the join.
  * `c12_terminates`: `NoFallback P → 8 * P.n < 200 → (eval …) ≠ .error ⟨.tooManyIterations, _⟩`
    (at most `8·k+1` iterations for `k` heads).
    Both need a *simulation between two consecutive passes* of the DFS, which has been worked
    out but not formalised:  relation `Sim F l r` between a state `l` of pass `t` and the
    corresponding state `r` of pass `t+1` (same stack; `r.final = F ⊇ l.final`; same cache keys
    with pointwise larger values; `dom l.prov ⊆ dom r.prov` with larger values; every head of
    `r` is a head at the end of pass `t`), with the lemmas  (1) `fetch`/`evalM`/`execute`
    preserve `Sim` and `le v v'` — the only asymmetric case is "pass `t` executes a node that
    pass `t+1` finds final", which is closed by `eval_sound` (`v ≤ lfp = v'`) because such a
    sub-run leaves no provisional state;  (2) hence the heads known at the start of a pass are
    all recomputed in it and no new head appears after pass 0 (the DFS order is
    value-independent);  (3) `cycleFn` is monotone in both arguments, which gives the chain;
    (4) the measure `Σ_{c<n} card (value of c in pass t)` is bounded by `8·n` and strictly
    increases with every non-converged pass, which gives termination.
    Evidence meanwhile: `C15.c15_bounded` (the loop always ends within `MAX_ITERATIONS`
    increments, in a value or a panic); the non-vacuity examples below; the driver corpus and
    1.3 M fuzzed requests (programs of up to 7 nodes, mixed strategies, all entry orders) never
    needed more than 3 iterations and never produced `too-many-iterations`.
-/
import SalsaVerif.Proofs.CycleSound

namespace SalsaVerif.Props.C12
open SalsaVerif.Model.Cycle SalsaVerif.Proofs.Cycle

/-- `Mono` is automatic for the body language: bodies are monotone in their callees. -/
theorem c12_mono (env : Nat → Nat) (ρ ρ' : Nat → Nat) (e : Expr)
    (h : ∀ c ∈ callees env e, le (ρ c) (ρ' c)) : le (evalExpr env ρ e) (evalExpr env ρ' e) :=
  evalExpr_mono env e h

/-- the fuel `8 * n + 1` of the reference suffices: `lfp` is a fixpoint of the equations … -/
theorem c12_lfp_is_fix (P : Prog) (env : Nat → Nat) (i : Nat) :
    evalExpr env (lfp P env) (P.node i).body = lfp P env i :=
  lfp_step P env i

/-- … and it is below every other (post-)fixpoint. -/
theorem c12_lfp_is_least (P : Prog) (env : Nat → Nat) (σ : Nat → Nat)
    (hσ : ∀ i, le (evalExpr env σ (P.node i).body) (σ i)) (i : Nat) : le (lfp P env i) (σ i) :=
  lfp_le_of_post P env (fun _ => True) σ (fun _ _ _ _ => trivial) (fun x _ => hσ x) i trivial

/-- **c12_lfp.**  For a program without `FallbackImmediate` nodes, a request for ANY node `j`
    from a database whose memos are correct (in particular the empty one) that returns a value
    returns `lfp P env j`; afterwards every memo — every node of the cycle and every node
    evaluated on the way — holds its `lfp` value, the memoised set is closed under callees, and
    no provisional state is left.  The right-hand sides mention neither the entry node nor the
    history, so the result is independent of both. -/
theorem c12_lfp (P : Prog) (env : Nat → Nat) (hNF : NoFallback P)
    (final : List (Nat × Nat)) (hdb : DbOk P env final) (poisoned : List Nat)
    (j v : Nat) (s : St) (h : eval P env final poisoned j = .ok (v, s)) :
    v = lfp P env j ∧ s.final.lookup j = some v ∧
    (∀ i w, s.final.lookup i = some w → w = lfp P env i) ∧
    (∀ i w, s.final.lookup i = some w →
      ∀ c ∈ callees env (P.node i).body, (s.final.lookup c).isSome = true) ∧
    s.stack = [] ∧ s.prov = [] ∧ s.cache = [] := by
  obtain ⟨h1, h2, h3, h4, h5, h6, _, _⟩ := eval_sound P env hNF hdb poisoned j v s h
  exact ⟨h1, h2, h3.ok, h3.closed, h4, h5, h6⟩

/-- from scratch, as a function `Node → Option Val`. -/
theorem c12_lfp_run (P : Prog) (env : Nat → Nat) (hNF : NoFallback P) (j : Nat)
    (σ : Nat → Option Nat) (h : run P env j = .ok σ) :
    σ j = some (lfp P env j) ∧ ∀ i w, σ i = some w → w = lfp P env i := by
  unfold run at h
  cases he : eval P env [] [] j with
  | error e => rw [he] at h; cases h
  | ok r =>
    obtain ⟨v, s⟩ := r
    rw [he] at h
    injection h with h
    subst h
    have hdb : DbOk P env [] := dbOk_nil P env
    obtain ⟨h1, h2, h3, _⟩ := c12_lfp P env hNF [] hdb [] j v s he
    exact ⟨by rw [← h1]; exact h2, h3⟩

/-- **c12_lfp, history form.**  After ANY history `js` of earlier requests in the revision
    (successful or panicking), a request for any node `j` that returns a value returns
    `lfp P env j`: the result depends on neither the entry node nor the history. -/
theorem c12_lfp_history (P : Prog) (env : Nat → Nat) (hNF : NoFallback P) (js : List Nat)
    (j v k : Nat) (h : ((gets P env Db.empty js).get P env j).1 = .value v k) :
    v = lfp P env j := by
  have hdb : DbOk P env (gets P env Db.empty js).final :=
    dbOk_gets P env hNF js Db.empty (dbOk_nil P env)
  unfold Db.get at h
  cases he : eval P env (gets P env Db.empty js).final (gets P env Db.empty js).poisoned j with
  | error e => rw [he] at h; cases h
  | ok r =>
    obtain ⟨v', s⟩ := r
    rw [he] at h
    injection h with h1 h2
    subst h1
    exact (eval_sound P env hNF hdb _ j v' s he).1

/-- **c12_stop_is_fix.**  When a request has converged, the memoised assignment is a fixpoint of
    the equations on its (callee-closed) domain. -/
theorem c12_stop_is_fix (P : Prog) (env : Nat → Nat) (hNF : NoFallback P)
    (final : List (Nat × Nat)) (hdb : DbOk P env final) (poisoned : List Nat)
    (j v : Nat) (s : St) (h : eval P env final poisoned j = .ok (v, s)) :
    ∀ i w, s.final.lookup i = some w →
      w = evalExpr env (fun c => (s.final.lookup c).getD 0) (P.node i).body := by
  obtain ⟨_, _, hok, hcl, _⟩ := c12_lfp P env hNF final hdb poisoned j v s h
  intro i w hw
  rw [hok i w hw, ← lfp_step]
  apply evalExpr_congr
  intro c hc
  have := hcl i w hw c hc
  cases hl : s.final.lookup c with
  | none => rw [hl] at this; cases this
  | some wc => rw [hok c wc hl]; rfl

/-- the step of the head loop at which the outermost head converges makes exactly the memos of
    this iteration final, and each of them is the least fixpoint (the loop-level form of
    `c12_stop_is_fix` + `c12_lfp`). -/
theorem c12_stop_is_lfp (P : Prog) (env : Nat → Nat) (s1 : St) (j : Nat) (rest : List Nat)
    (v new : Nat) (hI : Inv P env s1) (hst : s1.stack = j :: rest)
    (hev : EvalRel env (Avail s1) (P.node j).body v) (h1 : le v new) (h2 : le new (lfp P env j))
    (hconv : converged (cache1Of s1 j new) s1.prov = true) (c w : Nat)
    (h : (stConv s1 j new).final.lookup c = some w) : w = lfp P env c :=
  conv_final_ok P env s1 j rest v new hI hst hev h1 h2 hconv c w h

/-- **c12_chain (upper half).**  In every state reachable by the engine (`Inv`), every
    provisional value of a head and every memo of the current iteration is below `lfp`. -/
theorem c12_chain_partial (P : Prog) (env : Nat → Nat) (s : St) (hI : Inv P env s) :
    (∀ k w, s.prov.lookup k = some w → le w (lfp P env k)) ∧
    (∀ k e, s.cache.lookup k = some e → le e.val (lfp P env k)) := by
  refine ⟨hI.provLe, fun k e h => hI.cacheLe k e.val ?_⟩
  simp [cval, h]

/-- **c12_chain (join heads).**  The new provisional value of a head with `cycle_fn` = join is
    above its previous one, and in any case above the value just computed. -/
theorem c12_chain_join_partial (P : Prog) (j last v : Nat) :
    ((P.node j).strat = .fixpoint true → le last (cycleFn P j last v)) ∧
    ((∀ fv, (P.node j).strat ≠ .fallback fv) → le v (cycleFn P j last v)) := by
  constructor
  · intro h; unfold cycleFn; rw [h]; exact le_or_right _ _
  · intro h
    unfold cycleFn
    cases hs : (P.node j).strat with
    | fallback fv => exact absurd hs (h fv)
    | panic => exact le_refl _
    | fixpoint b => cases b <;> first | exact le_refl _ | exact le_or_left _ _

/-! ## non-vacuity -/

/-- `n0 = {0} ∪ n1`, `n1 = {1} ∪ (n0 ∩ in0)`, `n2 = n1 ∪ n2` (join). -/
def ex1 : Prog := ⟨[
  ⟨.fixpoint false, .union (.const 1) (.call 1)⟩,
  ⟨.fixpoint false, .union (.const 2) (.inter (.call 0) (.input 0))⟩,
  ⟨.fixpoint true, .union (.call 1) (.call 2)⟩]⟩

def env1 : Nat → Nat := fun _ => 255

example : NoFallback ex1 := by
  intro j v
  unfold Prog.node
  match j with
  | 0 => simp [ex1]
  | 1 => simp [ex1]
  | 2 => simp [ex1]
  | n + 3 => simp [ex1]

example : okOf (·.1) (eval ex1 env1 [] [] 0) = some 3 := by decide
example : okOf (·.1) (eval ex1 env1 [] [] 1) = some 3 := by decide
example : okOf (·.1) (eval ex1 env1 [] [] 2) = some 3 := by decide
example : lfpL ex1 env1 = [3, 3, 3] := by decide
/-- the head loop really iterates (1 `WillIterateCycle` step) … -/
example : okOf (·.2.iters) (eval ex1 env1 [] [] 0) = some 1 := by decide
/-- … and all three entry points leave the same memos for the cycle `{0, 1}`. -/
example : okOf (fun r => (r.2.final.lookup 0, r.2.final.lookup 1)) (eval ex1 env1 [] [] 2)
    = some (some 3, some 3) := by decide
example : ((gets ex1 env1 Db.empty [2, 1]).get ex1 env1 0).1 = .value 3 0 := by decide

end SalsaVerif.Props.C12
