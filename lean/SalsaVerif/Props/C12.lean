/-
  C12 — fixpoint cycles reach the least fixpoint from any entry.

  Model: `SalsaVerif.Model.Cycle` (an abstraction of salsa's provisional-memo reuse: every
  participant is re-evaluated once per iteration of the outermost head; see the header there).
  Bodies: `const | input | call | union | inter | ite (on an INPUT) | gate c a` — `gate` is the
  monotone VALUE-controlled gate (`a` is evaluated, hence its callees are fetched, only when bit 0
  of the value of `c` is set): the call graph depends on values, cycles form, grow and reshape
  while iterating.  Reference: `lfp P env` = Kleene iteration from ⊥ with fuel `8 * n + 1`.

  PROVED FOR ALL PROGRAMS OF THE BODY LANGUAGE, GATES INCLUDED (`NoFallback` only):
  `c12_mono` (gates are monotone), `c12_lfp_is_fix`, `c12_lfp_is_least` (the fuel bound of the
  reference), `c12_lfp` (+ `_run`, `_history`: any entry node, any history, every memoised node
  holds its `lfp` value, the memoised set is closed under the callees UNDER THE FINAL VALUES),
  `c12_stop_is_fix`, `c12_stop_is_lfp`, `c12_chain_partial` (every provisional value is below
  `lfp`), `c12_chain_join_partial`, and
  * `c12_full_gated`: well-formed program without `FallbackImmediate` nodes: EVERY request for an
    existing node, from any database with correct memos, returns `lfp P env j` and leaves only
    `lfp` memos and no provisional state — or ends in `panic cycle` / `propagated` /
    `tooManyIterations` (never out of model fuel, never a wrong value);
  * `c12_full_recovering_gated`: all nodes `fixpoint`, nothing poisoned: `lfp P env j` or
    `tooManyIterations`, nothing else.

  PROVED FOR GATE-FREE PROGRAMS (`P.NoGate`, decidable; via the simulation between consecutive
  passes of the DFS, `Proofs/CycleChain*.lean`):
  * `c12_chain` (full): for the head loop of an outermost head `j`, with `σ t` the state at the
    start of pass `t` (`σ (t+1) = stIter s1_t j new_t`, expressed by `PassStep`, which is exactly
    the iterating branch of `executeMaybeIterate`: `c12_passStep_unfold`),
      `∀ t c w, (σ t).prov.lookup c = some w → ∃ w', (σ (t+1)).prov.lookup c = some w' ∧ le w w'`
    — the provisional values of consecutive passes form an ascending chain, for identity and for
    join `cycle_fn`s alike, and no head is ever dropped.
  * `c12_pass_total`: after the first pass of an outermost head no pass fails: the body of pass
    `t+1` evaluates successfully, its value is above that of pass `t`, and it creates no new
    cycle head (the DFS order is value-independent).
  * `c12_terminates` (+ `_history`): `NoFallback P → P.NoGate → 8 * P.n < 200 →` no request ends
    in `tooManyIterations` (the measure `Σ_{c<n} card (value of c in the pass)` is bounded by `8·n`
    and strictly increases with every non-converged pass after the first).
  * `c12_full`, `c12_full_history`, `c12_full_recovering`: as the `_gated` forms, without the
    `tooManyIterations` outcome — total correctness.

  WHY `NoGate` THERE.  With gates the three statements are FALSE, in the model and in salsa alike:
  a later pass can open a gate, reach a node below which a query is re-entered that was a plain
  participant before; it becomes a NEW nested head and restarts from ∅, so memo values DROP from
  one pass to the next, gates close again and heads are forgotten.
  `c12_chain_fails_with_gates` is a 4-node program (all identity `fixpoint`) whose outermost head
  has the provisional values 13, 5, 13 in passes 1, 2, 3 and loses the head `n3` in between
  (real salsa: same values, events `C0:1 X1 X2 C0:2 X1 X2 C0:3`); `c12_pass_total` fails on it too
  (pass 2 creates the head `n1`).  Termination with gates is OPEN: no measure is known (values
  are not monotone in the pass number); over 50 000 random gated programs (≤ 6 nodes, every entry node) never needed more than 6
  iterations in the model, and the differential runs (`flavour 6`) never saw
  `too-many-iterations`.  The model's `outer` flag ("a head that iterated once stays the
  outermost head") had to go for gates (it made `n0 = n1; n1 = gate(n1, n0) ∪ {0}` diverge where
  salsa converges); whether `j` is outermost is now decided after every pass, as salsa does.

  NOT PROVED: termination (`tooManyIterations` unreachable) for programs WITH gates; and the
  possible strengthening for gate-free programs (the bodies are bitwise, so a loop makes at most
  `n + 1` passes; `P.n < 200` would then suffice instead of `8 * P.n < 200`).
-/
import SalsaVerif.Proofs.CycleChainTotal
import SalsaVerif.Proofs.CycleFuel

namespace SalsaVerif.Props.C12
open SalsaVerif.Model.Cycle SalsaVerif.Proofs.Cycle

/-- `Mono` is automatic for the body language, gates included: bodies are monotone in their
    callees (those under the larger assignment: a gate open below is open above). -/
theorem c12_mono (env : Nat → Nat) (ρ ρ' : Nat → Nat) (e : Expr)
    (h : ∀ c ∈ callees env ρ' e, le (ρ c) (ρ' c)) : le (evalExpr env ρ e) (evalExpr env ρ' e) :=
  evalExpr_mono env e h

/-- the fuel `8 * n + 1` of the reference suffices: `lfp` is a fixpoint of the equations … -/
theorem c12_lfp_is_fix (P : Prog) (env : Nat → Nat) (i : Nat) :
    evalExpr env (lfp P env) (P.node i).body = lfp P env i :=
  lfp_step P env i

/-- … and it is below every other (post-)fixpoint. -/
theorem c12_lfp_is_least (P : Prog) (env : Nat → Nat) (σ : Nat → Nat)
    (hσ : ∀ i, le (evalExpr env σ (P.node i).body) (σ i)) (i : Nat) : le (lfp P env i) (σ i) :=
  lfp_le_of_post P env (fun _ => True) σ (fun _ _ _ _ => trivial) (fun x _ => hσ x) i trivial

/-- **c12_lfp.**  For a program without `FallbackImmediate` nodes, a request for ANY node `j`
    from a database whose memos are correct (in particular the empty one) that returns a value
    returns `lfp P env j`; afterwards every memo — every node of the cycle and every node
    evaluated on the way — holds its `lfp` value, the memoised set is closed under callees (the
    callees under the final values: those behind a gate count iff the gate is open), and no
    provisional state is left.  The right-hand sides mention neither the entry node nor the
    history, so the result is independent of both. -/
theorem c12_lfp (P : Prog) (env : Nat → Nat) (hNF : NoFallback P)
    (final : List (Nat × Nat)) (hdb : DbOk P env final) (poisoned : List Nat)
    (j v : Nat) (s : St) (h : eval P env final poisoned j = .ok (v, s)) :
    v = lfp P env j ∧ s.final.lookup j = some v ∧
    (∀ i w, s.final.lookup i = some w → w = lfp P env i) ∧
    (∀ i w, s.final.lookup i = some w →
      ∀ c ∈ callees env (lfp P env) (P.node i).body, (s.final.lookup c).isSome = true) ∧
    s.stack = [] ∧ s.prov = [] ∧ s.cache = [] := by
  obtain ⟨h1, h2, h3, h4, h5, h6, _, _⟩ := eval_sound P env hNF hdb poisoned j v s h
  exact ⟨h1, h2, h3.ok, h3.closed, h4, h5, h6⟩

/-- from scratch, as a function `Node → Option Val`. -/
theorem c12_lfp_run (P : Prog) (env : Nat → Nat) (hNF : NoFallback P) (j : Nat)
    (σ : Nat → Option Nat) (h : run P env j = .ok σ) :
    σ j = some (lfp P env j) ∧ ∀ i w, σ i = some w → w = lfp P env i := by
  unfold run at h
  cases he : eval P env [] [] j with
  | error e => rw [he] at h; cases h
  | ok r =>
    obtain ⟨v, s⟩ := r
    rw [he] at h
    injection h with h
    subst h
    have hdb : DbOk P env [] := dbOk_nil P env
    obtain ⟨h1, h2, h3, _⟩ := c12_lfp P env hNF [] hdb [] j v s he
    exact ⟨by rw [← h1]; exact h2, h3⟩

/-- **c12_lfp, history form.**  After ANY history `js` of earlier requests in the revision
    (successful or panicking), a request for any node `j` that returns a value returns
    `lfp P env j`: the result depends on neither the entry node nor the history. -/
theorem c12_lfp_history (P : Prog) (env : Nat → Nat) (hNF : NoFallback P) (js : List Nat)
    (j v k : Nat) (h : ((gets P env Db.empty js).get P env j).1 = .value v k) :
    v = lfp P env j := by
  have hdb : DbOk P env (gets P env Db.empty js).final :=
    dbOk_gets P env hNF js Db.empty (dbOk_nil P env)
  unfold Db.get at h
  cases he : eval P env (gets P env Db.empty js).final (gets P env Db.empty js).poisoned j with
  | error e => rw [he] at h; cases h
  | ok r =>
    obtain ⟨v', s⟩ := r
    rw [he] at h
    injection h with h1 h2
    subst h1
    exact (eval_sound P env hNF hdb _ j v' s he).1

/-- **c12_stop_is_fix.**  When a request has converged, the memoised assignment is a fixpoint of
    the equations on its (callee-closed) domain. -/
theorem c12_stop_is_fix (P : Prog) (env : Nat → Nat) (hNF : NoFallback P)
    (final : List (Nat × Nat)) (hdb : DbOk P env final) (poisoned : List Nat)
    (j v : Nat) (s : St) (h : eval P env final poisoned j = .ok (v, s)) :
    ∀ i w, s.final.lookup i = some w →
      w = evalExpr env (fun c => (s.final.lookup c).getD 0) (P.node i).body := by
  obtain ⟨_, _, hok, hcl, _⟩ := c12_lfp P env hNF final hdb poisoned j v s h
  intro i w hw
  rw [hok i w hw, ← lfp_step]
  apply evalExpr_congr
  intro c hc
  have := hcl i w hw c hc
  cases hl : s.final.lookup c with
  | none => rw [hl] at this; cases this
  | some wc => rw [hok c wc hl]; rfl

/-- the step of the head loop at which the outermost head converges makes exactly the memos of
    this iteration final, and each of them is the least fixpoint (the loop-level form of
    `c12_stop_is_fix` + `c12_lfp`). -/
theorem c12_stop_is_lfp (P : Prog) (env : Nat → Nat) (s1 : St) (j : Nat) (rest : List Nat)
    (v new : Nat) (hI : Inv P env s1) (hst : s1.stack = j :: rest)
    (hev : EvalRel env (Avail s1) (P.node j).body v) (h1 : le v new) (h2 : le new (lfp P env j))
    (hconv : converged (cache1Of s1 j new) s1.prov = true) (c w : Nat)
    (h : (stConv s1 j new).final.lookup c = some w) : w = lfp P env c :=
  conv_final_ok P env s1 j rest v new hI hst hev h1 h2 hconv c w h

/-- **c12_chain (upper half).**  In every state reachable by the engine (`Inv`), every
    provisional value of a head and every memo of the current iteration is below `lfp`. -/
theorem c12_chain_partial (P : Prog) (env : Nat → Nat) (s : St) (hI : Inv P env s) :
    (∀ k w, s.prov.lookup k = some w → le w (lfp P env k)) ∧
    (∀ k e, s.cache.lookup k = some e → le e.val (lfp P env k)) := by
  refine ⟨hI.provLe, fun k e h => hI.cacheLe k e.val ?_⟩
  simp [cval, h]

/-- **c12_chain (join heads).**  The new provisional value of a head with `cycle_fn` = join is
    above its previous one, and in any case above the value just computed. -/
theorem c12_chain_join_partial (P : Prog) (j last v : Nat) :
    ((P.node j).strat = .fixpoint true → le last (cycleFn P j last v)) ∧
    ((∀ fv, (P.node j).strat ≠ .fallback fv) → le v (cycleFn P j last v)) := by
  constructor
  · intro h; unfold cycleFn; rw [h]; exact le_or_right _ _
  · intro h
    unfold cycleFn
    cases hs : (P.node j).strat with
    | fallback fv => exact absurd hs (h fv)
    | panic => exact le_refl _
    | fixpoint b => cases b <;> first | exact le_refl _ | exact le_or_left _ _

/-! ## the ascending chain, termination, the full property -/

/-- the fetch function of the engine at stack-depth fuel `d`. -/
abbrev readOf (P : Prog) (env : Nat → Nat) (d : Nat) : Nat → St → Res Fetched :=
  fetch P (execute P env d)

/-- `PassStep … s s'` (one non-converged pass of the head loop of `j`, from the start `s`
    of the pass to the start `s' = stIter s1 j new` of the next) is exactly the iterating branch
    of `executeMaybeIterate`. -/
theorem c12_passStep_unfold (P : Prog) (env : Nat → Nat) (read : Nat → St → Res Fetched)
    (j : Nat) (s s' : St) (fuel stamp stamp' : Nat)
    (h : PassStep P env read j s s')
    (hi : SalsaVerif.Gen.Stamp.IterationStamp.increment_iteration stamp = some stamp') :
    executeMaybeIterate P env read j (fuel + 1) stamp s
      = executeMaybeIterate P env read j fuel stamp' s' :=
  passStep_unfold P env read j s s' fuel stamp stamp' h hi

/-- **c12_chain.**  Let `σ 0` be a reachable state (`Inv`) in which `j` is on top of the stack
    and no cycle head is known — the start of the first pass of an outermost head — and
    `σ (i+1)` the start of the pass after the non-converged pass `i` (`PassSeq`).  Then the
    provisional values of consecutive passes form an ascending chain: every head of pass `t` is a
    head of pass `t+1` with a larger (or equal) provisional value. -/
theorem c12_chain (P : Prog) (env : Nat → Nat) (hNF : NoFallback P) (hG : P.NoGate)
    (d j : Nat) (rest : List Nat)
    (σ : Nat → St) (T : Nat) (hσ : PassSeq P env (readOf P env d) j rest σ T) :
    ∀ t, t < T → ∀ c w, (σ t).prov.lookup c = some w →
      ∃ w', (σ (t + 1)).prov.lookup c = some w' ∧ le w w' :=
  loop_chain P env _ j rest (fetch_spec P env hNF (execute_spec P env hNF d))
    (fetch_RH P env (execute_RH P env hNF hG d))
    (fetch_sim P env hNF (execute_spec P env hNF d) (execute_RH P env hNF hG d)
      (execute_sim P env hNF hG d)) hNF hG σ T hσ

/-- **c12_pass_total.**  In the same situation the body of pass `t+1` evaluates successfully
    whenever pass `t` did (no panic after the first pass), it creates no new cycle head, its
    value is above that of pass `t`, and the provisional memos of the two passes have the same
    keys with pointwise larger values (the DFS order is value-independent). -/
theorem c12_pass_total (P : Prog) (env : Nat → Nat) (hNF : NoFallback P) (hG : P.NoGate)
    (d j : Nat) (rest : List Nat) (σ : Nat → St) (T : Nat)
    (hσ : PassSeq P env (readOf P env d) j rest σ T) (t : Nat) (ht : t < T) :
    ∃ v hs s1 v' hs' s1', evalM env (readOf P env d) (P.node j).body (σ t) = .ok (v, hs, s1) ∧
      evalM env (readOf P env d) (P.node j).body (σ (t + 1)) = .ok (v', hs', s1') ∧
      s1'.prov = (σ (t + 1)).prov ∧ le v v' ∧
      (∀ c w, cval s1 c = some w → ∃ w', cval s1' c = some w' ∧ le w w') ∧
      (∀ c, cval s1 c = none → cval s1' c = none) :=
  loop_pass_total P env _ j rest (fetch_spec P env hNF (execute_spec P env hNF d))
    (fetch_RH P env (execute_RH P env hNF hG d))
    (fetch_sim P env hNF (execute_spec P env hNF d) (execute_RH P env hNF hG d)
      (execute_sim P env hNF hG d)) hNF hG σ T hσ t ht

/-- **c12_terminates.**  For a gate-free program without `FallbackImmediate` nodes whose lattice height
    `8·n` (8-bit sets, `n` nodes) is below `MAX_ITERATIONS = 200`, a request against a database
    with correct memos never ends in `tooManyIterations`. -/
theorem c12_terminates (P : Prog) (env : Nat → Nat) (hNF : NoFallback P) (hG : P.NoGate)
    (hn : 8 * P.n < 200)
    (final : List (Nat × Nat)) (hdb : DbOk P env final) (poisoned : List Nat) (j : Nat)
    (e : Panic) (h : eval P env final poisoned j = .error e) : e.cls ≠ .tooManyIterations :=
  eval_noTM P env hNF hG hn hdb poisoned j e h

example : SalsaVerif.Gen.Stamp.MAX_ITERATIONS = 200 := rfl

/-- … after any history of requests in the revision. -/
theorem c12_terminates_history (P : Prog) (env : Nat → Nat) (hNF : NoFallback P)
    (hG : P.NoGate) (hn : 8 * P.n < 200) (js : List Nat) (j : Nat) :
    ((gets P env Db.empty js).get P env j).1 ≠ .panic .tooManyIterations := by
  have hdb : DbOk P env (gets P env Db.empty js).final :=
    dbOk_gets P env hNF js Db.empty (dbOk_nil P env)
  unfold Db.get
  cases he : eval P env (gets P env Db.empty js).final (gets P env Db.empty js).poisoned j with
  | ok r => intro h; cases h
  | error e =>
    intro h
    injection h with h
    exact c12_terminates P env hNF hG hn _ hdb _ j e he h

/-- **c12_full.**  Well-formed gate-free program, no `FallbackImmediate` node, `8·n < 200`: EVERY request
    for an existing node against a database with correct memos returns `lfp P env j`, leaving
    only `lfp` memos (closed under callees) and no provisional state — or it ends in
    `panic cycle` (a node without recovery was re-entered) or `propagated` (a head poisoned
    earlier in the revision).  No hang, no `tooManyIterations`, no other outcome. -/
theorem c12_full (P : Prog) (env : Nat → Nat) (hW : P.Wf) (hNF : NoFallback P)
    (hG : P.NoGate) (hn : 8 * P.n < 200) (final : List (Nat × Nat)) (hdb : DbOk P env final)
    (poisoned : List Nat) (j : Nat) (hj : j < P.n) :
    (∃ s, eval P env final poisoned j = .ok (lfp P env j, s) ∧
      s.final.lookup j = some (lfp P env j) ∧
      (∀ i w, s.final.lookup i = some w → w = lfp P env i) ∧
      (∀ i w, s.final.lookup i = some w →
        ∀ c ∈ callees env (lfp P env) (P.node i).body, (s.final.lookup c).isSome = true) ∧
      s.stack = [] ∧ s.prov = [] ∧ s.cache = []) ∨
    (∃ e, eval P env final poisoned j = .error e ∧ (e.cls = .cycle ∨ e.cls = .propagated)) := by
  cases h : eval P env final poisoned j with
  | ok r =>
    obtain ⟨v, s⟩ := r
    obtain ⟨h1, h2, h3, h4, h5, h6, h7⟩ := c12_lfp P env hNF final hdb poisoned j v s h
    subst h1
    exact Or.inl ⟨s, rfl, h2, h3, h4, h5, h6, h7⟩
  | error e =>
    right
    refine ⟨e, rfl, ?_⟩
    have h1 := eval_fuel P env hW final poisoned j hj e h
    have h2 := c12_terminates P env hNF hG hn final hdb poisoned j e h
    cases hc : e.cls with
    | cycle => exact Or.inl rfl
    | propagated => exact Or.inr rfl
    | tooManyIterations => exact absurd hc h2
    | outOfFuel => exact absurd hc h1

/-- … after any history of requests in the revision (panicking ones included). -/
theorem c12_full_history (P : Prog) (env : Nat → Nat) (hW : P.Wf) (hNF : NoFallback P)
    (hG : P.NoGate) (hn : 8 * P.n < 200) (js : List Nat) (j : Nat) (hj : j < P.n) :
    (∃ k, ((gets P env Db.empty js).get P env j).1 = .value (lfp P env j) k) ∨
    ((gets P env Db.empty js).get P env j).1 = .panic .cycle ∨
    ((gets P env Db.empty js).get P env j).1 = .panic .propagated := by
  have hdb : DbOk P env (gets P env Db.empty js).final :=
    dbOk_gets P env hNF js Db.empty (dbOk_nil P env)
  rcases c12_full P env hW hNF hG hn _ hdb (gets P env Db.empty js).poisoned j hj with
    ⟨s, hs, _⟩ | ⟨e, he, hc⟩
  · left
    refine ⟨s.iters, ?_⟩
    unfold Db.get; rw [hs]
  · right
    unfold Db.get; rw [he]
    rcases hc with hc | hc
    · left; show Outcome.panic e.cls = _; rw [hc]
    · right; show Outcome.panic e.cls = _; rw [hc]

/-- **c12_full_recovering.**  If moreover every node has a recovery strategy (all `fixpoint`)
    and nothing is poisoned, the request returns the least fixpoint: total correctness. -/
theorem c12_full_recovering (P : Prog) (env : Nat → Nat) (hW : P.Wf) (hNF : NoFallback P)
    (hG : P.NoGate) (hRec : Recovering P) (hn : 8 * P.n < 200) (final : List (Nat × Nat))
    (hdb : DbOk P env final) (j : Nat) (hj : j < P.n) :
    ∃ s, eval P env final [] j = .ok (lfp P env j, s) ∧
      (∀ i w, s.final.lookup i = some w → w = lfp P env i) ∧
      s.stack = [] ∧ s.prov = [] ∧ s.cache = [] := by
  obtain ⟨v, s, h⟩ := eval_ok P env hNF hG hn hW hRec hdb j hj
  obtain ⟨h1, _, h3, _, h5, h6, h7⟩ := c12_lfp P env hNF final hdb [] j v s h
  subst h1
  exact ⟨s, h, h3, h5, h6, h7⟩

/-! ## programs with value-controlled gates -/

/-- **c12_full_gated.**  Well-formed program without `FallbackImmediate` nodes, gates allowed:
    EVERY request for an existing node against a database with correct memos returns
    `lfp P env j`, leaving only `lfp` memos (closed under the callees under the final values) and
    no provisional state — or it ends in `panic cycle`, `propagated` or `tooManyIterations`.
    Never a wrong value, never out of model fuel. -/
theorem c12_full_gated (P : Prog) (env : Nat → Nat) (hW : P.Wf) (hNF : NoFallback P)
    (final : List (Nat × Nat)) (hdb : DbOk P env final)
    (poisoned : List Nat) (j : Nat) (hj : j < P.n) :
    (∃ s, eval P env final poisoned j = .ok (lfp P env j, s) ∧
      s.final.lookup j = some (lfp P env j) ∧
      (∀ i w, s.final.lookup i = some w → w = lfp P env i) ∧
      (∀ i w, s.final.lookup i = some w →
        ∀ c ∈ callees env (lfp P env) (P.node i).body, (s.final.lookup c).isSome = true) ∧
      s.stack = [] ∧ s.prov = [] ∧ s.cache = []) ∨
    (∃ e, eval P env final poisoned j = .error e ∧
      (e.cls = .cycle ∨ e.cls = .propagated ∨ e.cls = .tooManyIterations)) := by
  cases h : eval P env final poisoned j with
  | ok r =>
    obtain ⟨v, s⟩ := r
    obtain ⟨h1, h2, h3, h4, h5, h6, h7⟩ := c12_lfp P env hNF final hdb poisoned j v s h
    subst h1
    exact Or.inl ⟨s, rfl, h2, h3, h4, h5, h6, h7⟩
  | error e =>
    right
    refine ⟨e, rfl, ?_⟩
    have h1 := eval_fuel P env hW final poisoned j hj e h
    cases hc : e.cls with
    | cycle => exact Or.inl rfl
    | propagated => exact Or.inr (Or.inl rfl)
    | tooManyIterations => exact Or.inr (Or.inr rfl)
    | outOfFuel => exact absurd hc h1

/-- … after any history of requests in the revision. -/
theorem c12_full_gated_history (P : Prog) (env : Nat → Nat) (hW : P.Wf) (hNF : NoFallback P)
    (js : List Nat) (j : Nat) (hj : j < P.n) :
    (∃ k, ((gets P env Db.empty js).get P env j).1 = .value (lfp P env j) k) ∨
    ((gets P env Db.empty js).get P env j).1 = .panic .cycle ∨
    ((gets P env Db.empty js).get P env j).1 = .panic .propagated ∨
    ((gets P env Db.empty js).get P env j).1 = .panic .tooManyIterations := by
  have hdb : DbOk P env (gets P env Db.empty js).final :=
    dbOk_gets P env hNF js Db.empty (dbOk_nil P env)
  rcases c12_full_gated P env hW hNF _ hdb (gets P env Db.empty js).poisoned j hj with
    ⟨s, hs, _⟩ | ⟨e, he, hc⟩
  · left
    refine ⟨s.iters, ?_⟩
    unfold Db.get; rw [hs]
  · right
    unfold Db.get; rw [he]
    rcases hc with hc | hc | hc
    · left; show Outcome.panic e.cls = _; rw [hc]
    · right; left; show Outcome.panic e.cls = _; rw [hc]
    · right; right; show Outcome.panic e.cls = _; rw [hc]

/-- **c12_full_recovering_gated.**  If moreover every node has a recovery strategy and nothing
    is poisoned, the request returns the least fixpoint or hits the iteration limit — no
    `panic cycle`, no `propagated`. -/
theorem c12_full_recovering_gated (P : Prog) (env : Nat → Nat) (hW : P.Wf) (hNF : NoFallback P)
    (hRec : Recovering P) (final : List (Nat × Nat))
    (hdb : DbOk P env final) (j : Nat) (hj : j < P.n) :
    (∃ s, eval P env final [] j = .ok (lfp P env j, s) ∧
      (∀ i w, s.final.lookup i = some w → w = lfp P env i) ∧
      s.stack = [] ∧ s.prov = [] ∧ s.cache = []) ∨
    (∃ e, eval P env final [] j = .error e ∧ e.cls = .tooManyIterations) := by
  rcases c12_full_gated P env hW hNF final hdb [] j hj with ⟨s, h, _, h3, _, h5, h6, h7⟩ | ⟨e, h, hc⟩
  · exact Or.inl ⟨s, h, h3, h5, h6, h7⟩
  · right
    refine ⟨e, h, ?_⟩
    obtain ⟨h3, h4⟩ := eval_noCP P env hNF hW hRec hdb j hj e h
    rcases hc with hc | hc | hc
    · exact absurd hc h3
    · exact absurd hc h4
    · exact hc

/-! ## non-vacuity -/

/-- `n0 = {0} ∪ n1`, `n1 = {1} ∪ (n0 ∩ in0)`, `n2 = n1 ∪ n2` (join). -/
def ex1 : Prog := ⟨[
  ⟨.fixpoint false, .union (.const 1) (.call 1)⟩,
  ⟨.fixpoint false, .union (.const 2) (.inter (.call 0) (.input 0))⟩,
  ⟨.fixpoint true, .union (.call 1) (.call 2)⟩]⟩

def env1 : Nat → Nat := fun _ => 255

example : NoFallback ex1 := by
  intro j v
  unfold Prog.node
  match j with
  | 0 => simp [ex1]
  | 1 => simp [ex1]
  | 2 => simp [ex1]
  | n + 3 => simp [ex1]

example : okOf (·.1) (eval ex1 env1 [] [] 0) = some 3 := by decide
example : okOf (·.1) (eval ex1 env1 [] [] 1) = some 3 := by decide
example : okOf (·.1) (eval ex1 env1 [] [] 2) = some 3 := by decide
example : lfpL ex1 env1 = [3, 3, 3] := by decide
/-- the head loop really iterates (1 `WillIterateCycle` step) … -/
example : okOf (·.2.iters) (eval ex1 env1 [] [] 0) = some 1 := by decide
/-- … and all three entry points leave the same memos for the cycle `{0, 1}`. -/
example : okOf (fun r => (r.2.final.lookup 0, r.2.final.lookup 1)) (eval ex1 env1 [] [] 2)
    = some (some 3, some 3) := by decide
example : ((gets ex1 env1 Db.empty [2, 1]).get ex1 env1 0).1 = .value 3 0 := by decide


/-! ### nested cycles: chain, termination, the full property -/

/-- three nested heads: `n0 = {0} ∪ n1`, `n1 = n2 ∪ n0`, `n2 = n3 ∪ n1`, `n3 = {3} ∪ n2` (join).
    A request for `n0` makes `n0` the outermost head with the nested heads `n1`, `n2`; the bit
    `3` travels one head per pass: 4 passes (3 `WillIterateCycle` steps). -/
def ex3 : Prog := ⟨[
  ⟨.fixpoint false, .union (.const 1) (.call 1)⟩,
  ⟨.fixpoint false, .union (.call 2) (.call 0)⟩,
  ⟨.fixpoint false, .union (.call 3) (.call 1)⟩,
  ⟨.fixpoint true, .union (.const 8) (.call 2)⟩]⟩

theorem ex3_noFallback : NoFallback ex3 := by
  intro j v
  unfold Prog.node
  match j with
  | 0 => simp [ex3]
  | 1 => simp [ex3]
  | 2 => simp [ex3]
  | 3 => simp [ex3]
  | n + 4 => simp [ex3]

theorem ex3_recovering : Recovering ex3 := by
  intro c hc
  unfold Prog.node
  match c, hc with
  | 0, _ => simp [ex3]
  | 1, _ => simp [ex3]
  | 2, _ => simp [ex3]
  | 3, _ => simp [ex3]
  | n + 4, h => exact absurd h (by simp [Prog.n, ex3])

example : ex3.Wf := by decide
example : 8 * ex3.n < 200 := by decide
example : lfpL ex3 env1 = [9, 9, 9, 9] := by decide
example : okOf (fun r => (r.1, r.2.iters)) (eval ex3 env1 [] [] 0) = some (9, 3) := by decide
example : okOf (fun r => (r.1, r.2.iters)) (eval ex3 env1 [] [] 2) = some (9, 2) := by decide

/-- the hypotheses of `c12_full` / `c12_full_recovering` are satisfiable (nested-cycle program,
    every entry node), and the conclusion is the left disjunct. -/
example (j : Nat) (hj : j < ex3.n) :
    ∃ s, eval ex3 env1 [] [] j = .ok (lfp ex3 env1 j, s) ∧
      (∀ i w, s.final.lookup i = some w → w = lfp ex3 env1 i) ∧
      s.stack = [] ∧ s.prov = [] ∧ s.cache = [] :=
  c12_full_recovering ex3 env1 (by decide) ex3_noFallback (by decide) ex3_recovering (by decide) []
    (dbOk_nil ex3 env1) j hj

example : ((gets ex3 env1 Db.empty [3, 1]).get ex3 env1 0).1 ≠ .panic .tooManyIterations :=
  c12_terminates_history ex3 env1 ex3_noFallback (by decide) (by decide) [3, 1] 0

/-- the pass-start states of the head loop of `n0` in the request `get n0` from scratch. -/
def nextSt3 (s : St) : St :=
  match evalM env1 (readOf ex3 env1 5) (ex3.node 0).body s with
  | .ok (v, _, s1) =>
    match s1.prov.lookup 0 with
    | some last => stIter s1 0 (cycleFn ex3 0 last v)
    | none => s
  | .error _ => s

def σ3 : Nat → St
  | 0 => { (St.init [] []) with stack := [0] }
  | t + 1 => nextSt3 (σ3 t)

/-- non-vacuity of `c12_chain` / `c12_pass_total`: three non-converged passes. -/
theorem ex3_passSeq : PassSeq ex3 env1 (readOf ex3 env1 5) 0 [] σ3 3 := by
  refine ⟨?_, rfl, rfl, ?_⟩
  · exact inv_push ex3 env1 (inv_init ex3 env1 (dbOk_nil ex3 env1) []) (by simp [St.init]) rfl rfl
  · intro i hi
    match i, hi with
    | 0, _ => exact ⟨_, _, _, _, rfl, rfl, rfl, rfl, rfl⟩
    | 1, _ => exact ⟨_, _, _, _, rfl, rfl, rfl, rfl, rfl⟩
    | 2, _ => exact ⟨_, _, _, _, rfl, rfl, rfl, rfl, rfl⟩

example : ∀ t, t < 3 → ∀ c w, (σ3 t).prov.lookup c = some w →
    ∃ w', (σ3 (t + 1)).prov.lookup c = some w' ∧ le w w' :=
  c12_chain ex3 env1 ex3_noFallback (by decide) 5 0 [] σ3 3 ex3_passSeq

/-- the chain of provisional values `(n0, n1, n2)`: `(9,8,8) ≤ (9,9,8) ≤ (9,9,9)`. -/
example : ((σ3 0).prov, (σ3 1).prov, (σ3 2).prov, (σ3 3).prov)
    = ([], [(0, 9), (1, 8), (2, 8)], [(0, 9), (1, 9), (2, 8)], [(0, 9), (1, 9), (2, 9)]) := by
  decide

/-! ### value-controlled gates -/

/-- the shape of the generator's `gen_gated_nested_case`: `outer = {3} ∪ inner`,
    `inner = {0} ∪ gate(outer, gate(inner, {5}))` — the inner query calls the outer one, and then
    itself, only once their values have bit 0.  Entered through `inner`, the head `inner` iterates
    once on its own, then discovers that it is nested in `outer` (which is further down the
    stack) and completes as a nested head; `outer` drives the rest. -/
def exN : Prog := ⟨[
  ⟨.fixpoint true, .union (.const 8) (.call 1)⟩,
  ⟨.fixpoint false, .union (.const 1) (.gate (.call 0) (.gate (.call 1) (.const 32)))⟩]⟩

theorem exN_noFallback : NoFallback exN := by
  intro j v
  unfold Prog.node
  match j with
  | 0 => simp [exN]
  | 1 => simp [exN]
  | n + 2 => simp [exN]

theorem exN_recovering : Recovering exN := by
  intro c hc
  unfold Prog.node
  match c, hc with
  | 0, _ => simp [exN]
  | 1, _ => simp [exN]
  | n + 2, h => exact absurd h (by simp [Prog.n, exN])

example : exN.Wf ∧ ¬ exN.NoGate := by decide
example : lfpL exN env1 = [41, 33] := by decide
example : okOf (fun r => (r.1, r.2.iters)) (eval exN env1 [] [] 0) = some (41, 3) := by decide
example : okOf (fun r => (r.1, r.2.iters)) (eval exN env1 [] [] 1) = some (33, 2) := by decide
/-- the callees of `inner` under the final values: the gates are open. -/
example : callees env1 (fun j => (lfpL exN env1).getD j 0) (exN.node 1).body = [0, 1] ∧
    callees env1 (fun _ => 0) (exN.node 1).body = [0] := by decide

/-- `c12_full_recovering_gated` on a gated program, every entry node: the left disjunct. -/
example (j : Nat) (hj : j < exN.n) :
    (∃ s, eval exN env1 [] [] j = .ok (lfp exN env1 j, s) ∧
      (∀ i w, s.final.lookup i = some w → w = lfp exN env1 i) ∧
      s.stack = [] ∧ s.prov = [] ∧ s.cache = []) ∨
    (∃ e, eval exN env1 [] [] j = .error e ∧ e.cls = .tooManyIterations) :=
  c12_full_recovering_gated exN env1 (by decide) exN_noFallback exN_recovering []
    (dbOk_nil exN env1) j hj

/-- the counterexample to the chain with gates: `n0 = n1 ∪ n2 ∪ {0} ∪ gate(n2, n3)`,
    `n1 = {0} ∪ gate(n0, n2)`, `n2 = n1 ∪ {2}`, `n3 = n3 ∪ {3}`, all identity `fixpoint`. -/
def exG : Prog := ⟨[
  ⟨.fixpoint false,
    .union (.union (.call 1) (.call 2)) (.union (.const 1) (.gate (.call 2) (.call 3)))⟩,
  ⟨.fixpoint false, .union (.const 1) (.gate (.call 0) (.call 2))⟩,
  ⟨.fixpoint false, .union (.call 1) (.const 4)⟩,
  ⟨.fixpoint false, .union (.call 3) (.const 8)⟩]⟩

def nextStG (s : St) : St :=
  match evalM env1 (readOf exG env1 5) (exG.node 0).body s with
  | .ok (v, _, s1) =>
    match s1.prov.lookup 0 with
    | some last => stIter s1 0 (cycleFn exG 0 last v)
    | none => s
  | .error _ => s

def σG : Nat → St
  | 0 => { (St.init [] []) with stack := [0] }
  | t + 1 => nextStG (σG t)

theorem exG_passSeq : PassSeq exG env1 (readOf exG env1 5) 0 [] σG 3 := by
  refine ⟨?_, rfl, rfl, ?_⟩
  · exact inv_push exG env1 (inv_init exG env1 (dbOk_nil exG env1) []) (by simp [St.init]) rfl rfl
  · intro i hi
    match i, hi with
    | 0, _ => exact ⟨_, _, _, _, rfl, rfl, rfl, rfl, rfl⟩
    | 1, _ => exact ⟨_, _, _, _, rfl, rfl, rfl, rfl, rfl⟩
    | 2, _ => exact ⟨_, _, _, _, rfl, rfl, rfl, rfl, rfl⟩

set_option maxRecDepth 8000 in
/-- **the chain fails with gates.**  `exG` is well-formed, all `fixpoint`, and `σG` is the
    sequence of pass-start states of the head loop of the outermost head `n0` (three
    non-converged passes), yet the conclusion of `c12_chain` is false at `t = 1`: the provisional
    value of the outermost head itself drops from 13 to 5, and the head `n3` is forgotten —
    in pass 2 the gate in `n1` opens, `n1` is re-entered below `n2` and becomes a NEW head that
    restarts from ∅, `n2` drops from 5 to 4, the gate in front of `n3` closes.  The request
    still ends in the least fixpoint (`c12_full_gated`). -/
theorem c12_chain_fails_with_gates :
    exG.Wf ∧ NoFallback exG ∧ PassSeq exG env1 (readOf exG env1 5) 0 [] σG 3 ∧
    ¬ (∀ t, t < 3 → ∀ c w, (σG t).prov.lookup c = some w →
        ∃ w', (σG (t + 1)).prov.lookup c = some w' ∧ le w w') ∧
    ((σG 1).prov, (σG 2).prov, (σG 3).prov)
      = ([(3, 8), (0, 13)], [(1, 5), (0, 5)], [(3, 8), (1, 5), (0, 13)]) ∧
    okOf (fun r => (r.1, r.2.iters)) (eval exG env1 [] [] 0) = some (13, 3) ∧
    lfpL exG env1 = [13, 5, 5, 8] := by
  refine ⟨by decide, ?_, exG_passSeq, ?_, by decide, by decide, by decide⟩
  · intro j v
    unfold Prog.node
    match j with
    | 0 => simp [exG]
    | 1 => simp [exG]
    | 2 => simp [exG]
    | 3 => simp [exG]
    | n + 4 => simp [exG]
  · intro h
    obtain ⟨w', hw', _⟩ := h 1 (by decide) 3 8 (by decide)
    have : (σG 2).prov.lookup 3 = none := by decide
    rw [this] at hw'; cases hw'

end SalsaVerif.Props.C12
