/-
  C22 (engine core) — panics in user code.

  Model: SalsaVerif/Model/CoreP.lean = stage S2 (plain memoised functions over inputs, dynamic
  dependencies, durabilities, backdating; Model/Core.lean) + an injected panic.  The user code of
  this fragment is the query bodies, and a body interacts with the database only through its
  reads; `fetchInj P s q (some n)` makes the (n+1)-th read of the whole operation — in whatever
  body, at whatever depth of the call stack — panic, and models the unwinding (no memo inserted
  for any interrupted frame, no `verified_at` stored by an interrupted verification; what
  completed before stays).  `fetchInj … none` injects nothing.  Histories `POp` interleave
  requests with or without an injected panic, input writes and synthetic writes.

  PROVED: `c22_inv` (the invariant holds after the panic, at EVERY position), `c22_no_result`
  (the requested key and everything of higher rank keep their memos exactly; inputs, revision and
  `last_changed` are untouched), `c22_then_correct` (after any history with any number of
  panics, a request that completes returns the from-scratch value — and a request without
  injection completes).

  NOT YET PROVED (other user-code entry points of DESIGN.md §C22, outside this fragment):
  panics in `values_equal`, in the event callback (incl. the `diff_outputs` defect), in
  `cycle_fn`/`cycle_initial`, tracked-struct field equality, interning hash/eq; cycle heads
  (poison memo); waiting threads.
-/
import SalsaVerif.Model.CoreP
import SalsaVerif.Proofs.CoreP

namespace SalsaVerif.Props.C22Core
open SalsaVerif.Model.Core hiding readDep runBody execute depChanged deepEdges fetchStep mcaStep eng fetch step run outputs
open SalsaVerif.Model.CoreP SalsaVerif.Proofs.Core SalsaVerif.Proofs.CoreP

/-- **The invariant survives a panic at every position.**  For every reachable state (any history
    with any panics before), every request and every injection point. -/
theorem c22_inv {P : Nat → Body} (hP : Wf P) (inp : Nat → Inp) (ops : List POp) (q : Nat) (inj : Option Nat) :
    Inv P (fetchInj P (prun P inp ops) q inj).1 :=
  (fetchInj_ok hP _ q inj (prun_inv hP inp ops)).1

/-- **The interrupted request leaves no result behind.**  If the request panicked, the memo of the
    requested key — and of every key of higher rank — is exactly what it was; memos of callees
    that completed before the panic may have been refreshed (they are correct: `c22_inv`);
    inputs, current revision and `last_changed` are unchanged. -/
theorem c22_no_result {P : Nat → Body} (hP : Wf P) (inp : Nat → Inp) (ops : List POp) (q : Nat) (inj : Option Nat)
    (hpanic : (fetchInj P (prun P inp ops) q inj).2 = none) :
    (∀ p, q ≤ p → (fetchInj P (prun P inp ops) q inj).1.memos p = (prun P inp ops).memos p) ∧
    (fetchInj P (prun P inp ops) q inj).1.inp = (prun P inp ops).inp ∧
    (fetchInj P (prun P inp ops) q inj).1.cur = (prun P inp ops).cur ∧
    (fetchInj P (prun P inp ops) q inj).1.lch = (prun P inp ops).lch := by
  obtain ⟨_, h2, _, h4⟩ := fetchInj_ok hP _ q inj (prun_inv hP inp ops)
  exact ⟨h4 hpanic, h2.inp, h2.cur, h2.lch⟩

/-- **Later requests are correct.**  After any history — with panics injected at arbitrary
    positions of arbitrary requests — a request that completes returns the from-scratch value over
    the current inputs; a request without injection always completes. -/
theorem c22_then_correct {P : Nat → Body} (hP : Wf P) (inp : Nat → Inp) (ops : List POp) (q : Nat) :
    (∀ inj res, (fetchInj P (prun P inp ops) q inj).2 = some res → res.val = sem P (prun P inp ops).inp q) ∧
    (∃ res, (fetchInj P (prun P inp ops) q none).2 = some res ∧ res.val = sem P (prun P inp ops).inp q) := by
  have h := fun inj => (fetchInj_ok hP (prun P inp ops) q inj (prun_inv hP inp ops)).2.2.1
  refine ⟨fun inj res hr => h inj res hr, ?_⟩
  obtain ⟨res, hr⟩ := noInj_completes P (prun P inp ops) q
  exact ⟨res, hr, h none res hr⟩

/-- line-protocol programs: decidable hypothesis -/
theorem c22_inv_prog (es : List Expr) (h : wfList 0 es = true) (inp : Nat → Inp) (ops : List POp) (q : Nat)
    (inj : Option Nat) : Inv (progOf es) (fetchInj (progOf es) (prun (progOf es) inp ops) q inj).1 :=
  c22_inv (wf_progOf es h) inp ops q inj

/-! ### Non-vacuity: q0 = min i0 1, q1 = q0 + i1, q2 = if q1 odd then i2 else q0 -/

def exProg : List Expr :=
  [.min (.inp 0) (.const 1), .add (.qry 0) (.inp 1), .ite (.qry 1) (.inp 2) (.qry 0)]
def exInp : Nat → Inp := fun i => if i = 1 then ⟨2, 1, 0⟩ else ⟨3, 1, 0⟩

example : wfList 0 exProg = true := by decide

-- `get 2` reads q1 (→ q0 → i0; then i1), then i2: 5 reads.  A panic at the 4th read (i1, inside
-- q1) interrupts q1 and q2: q0 got its memo, q1 and q2 got none
example : (fetchInj (progOf exProg) (init exInp) 2 (some 3)).2.isNone = true := by decide
example : ((fetchInj (progOf exProg) (init exInp) 2 (some 3)).1.memos 0).isSome = true := by decide
example : ((fetchInj (progOf exProg) (init exInp) 2 (some 3)).1.memos 1).isNone = true := by decide
example : ((fetchInj (progOf exProg) (init exInp) 2 (some 3)).1.memos 2).isNone = true := by decide
-- with 5 or more reads allowed the request completes
example : ((fetchInj (progOf exProg) (init exInp) 2 (some 5)).2.map (·.val)) = some 3 := by decide
-- a history: panic, write, panic during verification, then a clean request
example : ((fetchInj (progOf exProg)
    (prun (progOf exProg) exInp [.get 2 (some 3), .get 2 none, .set 0 0 none, .get 2 (some 1)]) 2 none).2.map (·.val))
    = some 0 := by decide   -- i0 = 0: q0 = 0, q1 = 2 (even), q2 = q0 = 0 = `sem`

end SalsaVerif.Props.C22Core
