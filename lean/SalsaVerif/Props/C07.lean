/-
  C07 — reclaimed identities never alias.

  Models: SalsaVerif/Model/Intern.lean (interned values, src/interned.rs) and
  SalsaVerif/Model/Structs.lean (tracked structs, src/tracked_struct.rs).  The interned half is
  stated over histories of the single-shard interner (`Reachable rev s`, see Props/C08); the
  tracked-struct half over the op sequences of the struct table (see Props/C06).

  A slot's identity is (slot index, generation).  Every step that hands the slot to a new value
  bumps the generation, clears the memos and replaces the fields (`c07_clear_on_bump*`); memos
  are always tagged with the current generation (`c07_memo_gen*`); a dependency edge on an
  interned value recorded under an older generation is reported as changed
  (`c07_intern_dep_detects`); nothing touched in the current revision is reclaimed in it
  (`c07_no_reuse_in_rev*`).

  NOT YET PROVED (not in this file):
    c07_no_stale_handle : in a state of the full engine satisfying `Inv`, every struct / interned
      id contained in the value of a memo verified at `cur` denotes a live slot of the same
      generation.  Needs the engine model (stage S4 of DESIGN.md); only the component theorems
      below are proved.
-/
import SalsaVerif.Model.Intern
import SalsaVerif.Model.Structs
import SalsaVerif.Proofs.InternHist
import SalsaVerif.Proofs.Structs

namespace SalsaVerif.Props.C07
open SalsaVerif.Model.Intern SalsaVerif.Proofs.Intern

/-- Interned values: a step changes the generation of a slot only by reusing it — the step is
    an `intern` of a different value answering `reuse` with the next generation — and it leaves
    the memo table empty and the fields replaced by the new value.  Every other step leaves
    generation and fields alone. -/
theorem c07_clear_on_bump_interned (rev : Option Nat) (hrev : rev ≠ some 0) (s s' : Sys)
    (hr : Reachable rev s) (op : Op) (r : Ret) (i : Nat) (v : Slot)
    (hv : s.it.shard.slot? i = some v) (h : stepSys s op = some (s', r)) :
    ∃ v', s'.it.shard.slot? i = some v' ∧
      ((v'.generation = v.generation ∧ v'.fields = v.fields) ∨
       (v'.generation = v.generation + 1 ∧ v'.memos = [] ∧
        ∃ d inq x, op = .intern d inq x ∧ r = .interned ⟨.reuse, i, v.generation + 1⟩ ∧
          v'.fields = x ∧ x ≠ v.fields)) :=
  gen_step (inv_of_reachable hrev hr) hv h

/-- revisions = 1: value 7 gets a memo, is reused for value 8 in the next revision: generation 1,
    no memos, new fields. -/
example :
    (runSys (Sys.init (some 1)) [.intern 0 true 7, .addMemo 0, .newRev, .intern 0 true 8]).map
      (fun r => (r.1.it.shard.slots, r.2.map (·.ret))) =
    some ([⟨0, 8, 1, 2, 0, []⟩], [.interned ⟨.new, 0, 0⟩, .unit, .unit, .interned ⟨.reuse, 0, 1⟩]) := by
  decide

/-- Interned values: every memo stored in a slot was inserted under the slot's current
    generation. -/
theorem c07_memo_gen_interned (rev : Option Nat) (hrev : rev ≠ some 0) (s : Sys)
    (hr : Reachable rev s) (i : Nat) (v : Slot) (hv : s.it.shard.slot? i = some v) :
    ∀ m ∈ v.memos, m = v.generation :=
  (inv_of_reachable hrev hr).shard.memo_gen i v hv

example :
    (runSys (Sys.init (some 1))
      [.intern 0 true 7, .addMemo 0, .newRev, .intern 0 true 8, .addMemo 0, .addMemo 0]).map
      (fun r => r.1.it.shard.slots.map (fun v => (v.generation, v.memos))) = some [(1, [1, 1])] := by
  decide

/-- A dependency edge `(id, g)` on an interned value: `maybe_changed_after` answers `changed`
    exactly when the slot's generation is above `g`.  Along any history the generation of a slot
    never decreases and the value can only change together with the generation, so an edge
    recorded when the slot held `(x, g)` is reported unchanged only if the slot still holds `x`
    at generation `g`. -/
theorem c07_intern_dep_detects (rev : Option Nat) (hrev : rev ≠ some 0) (s s' : Sys)
    (hr : Reachable rev s) (i : Nat) (v : Slot) (hv : s.it.shard.slot? i = some v)
    (ops : List Op) (log : List Ev) (h : runSys s ops = some (s', log)) :
    ∃ v', s'.it.shard.slot? i = some v' ∧ v.generation ≤ v'.generation ∧
      (v'.generation = v.generation → v'.fields = v.fields) ∧
      (∀ g, ∃ s'', stepSys s' (.mca i g) = some (s'', .verified (decide (v'.generation > g)))) := by
  have inv := inv_of_reachable hrev hr
  have inv' := inv_run inv h
  obtain ⟨v', hv', hle, heq⟩ := gen_run inv hv h
  refine ⟨v', hv', hle, heq, ?_⟩
  intro g
  obtain ⟨q', hq, _, _⟩ := recordIfMortal_some inv'.qne s'.cur
  simp only [stepSys, Interner.maybeChangedAfter, hq, hv']
  by_cases hg : v'.generation > g
  · simp [hg]
  · simp [hg]

example :
    (runSys (Sys.init (some 1))
      [.intern 0 true 7, .newRev, .mca 0 0, .newRev, .intern 0 true 8, .mca 0 0, .mca 0 1]).map
      (fun r => r.2.map (·.ret)) =
    some [.interned ⟨.new, 0, 0⟩, .unit, .verified false, .unit, .interned ⟨.reuse, 0, 1⟩,
          .verified true, .verified false] := by decide

/-- An interned value touched in revision `r` — interned or validated, `last_interned_at ≥ r` —
    is not reused in `r`: it is not stale for any reuse scan now, and along every history that
    stays in the revision it keeps its value and generation. -/
theorem c07_no_reuse_in_rev_interned (rev : Option Nat) (hrev : rev ≠ some 0) (s s' : Sys)
    (hr : Reachable rev s) (i : Nat) (v : Slot) (hv : s.it.shard.slot? i = some v)
    (htouched : s.cur ≤ v.lastInternedAt)
    (ops : List Op) (log : List Ev) (hops : ∀ op ∈ ops, op ≠ .newRev)
    (h : runSys s ops = some (s', log)) :
    (∀ q', recordIfMortal s.it.revisions s.it.queue s.cur = some q' →
      q'.isStale v.lastInternedAt = false) ∧
    ∃ v', s'.it.shard.slot? i = some v' ∧ v'.fields = v.fields ∧ v'.generation = v.generation := by
  have inv := inv_of_reachable hrev hr
  refine ⟨notStale_of_touched inv htouched, ?_⟩
  obtain ⟨v', hv', hf, hg, _⟩ :=
    protected_run inv ⟨v, hv, rfl, rfl, Or.inl htouched⟩ hops h
  exact ⟨v', hv', hf, hg⟩

/-- revisions = 1, value 7 of revision 1 is validated in revision 2 and therefore survives the
    interning of 8 (which would otherwise have reused its slot, as in the first example). -/
example :
    (runSys (Sys.init (some 1)) [.intern 0 true 7, .newRev, .mca 0 0, .intern 0 true 8]).map
      (fun r => r.2.map (·.ret)) =
    some [.interned ⟨.new, 0, 0⟩, .unit, .verified false, .interned ⟨.new, 1, 0⟩] := by decide

/-! ### tracked structs (Model/Structs.lean; `Structs.World` = struct table + creator contexts,
    ops `spawn | begin q | new q cur dur changedAt ingredient fields | finish q cur |
    discard q cur | read cur idx | addMemo idx payload`, see Props/C06) -/

open SalsaVerif.Model SalsaVerif.Proofs in
/-- Tracked structs: in every reachable world, an op changes the generation of an existing slot
    only if it is a `Struct::new` — re-allocation of a freed slot from the free list, or an
    `update` that found a different identity value under the same identity hash (collision) — and
    then the slot is left with an empty memo table, exactly the new fields, stamped with the
    current revision, at the old generation plus one. -/
theorem c07_clear_on_bump_structs (hash : Nat → Nat) (ops : List Structs.Op) (w w' : Structs.World)
    (op : Structs.Op) (hreach : Structs.runOps hash Structs.World.empty ops = .ok w)
    (h : Structs.step hash w op = .ok w') (k : Nat) (v v' : Structs.Slot)
    (hv : w.st.slots[k]? = some v) (hv' : w'.st.slots[k]? = some v') (hgen : v'.gen ≠ v.gen) :
    ∃ q cur dur ca g fields, op = .new q cur dur ca g fields ∧ v'.memos = [] ∧
      v'.fields = fields ∧ v'.updatedAt = some cur ∧ v'.gen = v.gen + 1 := by
  obtain ⟨q, cur, dur, ca, g, fields, hop, h1, h2, h3, h4⟩ :=
    Structs.c07s_clear_on_bump_step h hv hv' hgen
  exact ⟨q, cur, dur, ca, g, fields, hop, h1, h2, h3,
    h4 (Structs.runOps_inv Structs.winv_empty hreach)⟩

open SalsaVerif.Model in
/-- free-list reuse (struct dropped in revision 2, slot re-allocated in revision 3) and identity
    collision (identity values 1 and 11 under `hash = · % 10`): generation 1, old memo gone. -/
example :
    (Structs.runOps (fun x => x % 10) Structs.World.empty
      [.spawn, .begin 0, .new 0 1 0 1 7 ⟨1, [5]⟩, .addMemo 0 41, .finish 0 1, .begin 0,
       .finish 0 2, .begin 0, .new 0 3 0 3 7 ⟨2, [6]⟩]).toOption.map
      (fun w => w.st.slots.map (fun v => (v.gen, v.fields, v.memos))) =
      some [(1, ⟨2, [6]⟩, [])] ∧
    (Structs.runOps (fun x => x % 10) Structs.World.empty
      [.spawn, .begin 0, .new 0 1 0 1 7 ⟨1, [5]⟩, .addMemo 0 41, .finish 0 1, .begin 0,
       .new 0 2 0 2 7 ⟨11, [5]⟩]).toOption.map
      (fun w => w.st.slots.map (fun v => (v.gen, v.fields, v.memos))) =
      some [(1, ⟨11, [5]⟩, [])] := by decide

/-- `c07_clear_on_bump`: every step that increments a slot's generation — free-list reuse,
    identity collision (tracked structs), interned reuse — leaves the memo table empty and
    replaces the fields.  (Conjunction of the two theorems above, for reference by name.) -/
theorem c07_clear_on_bump :
    (∀ (hash : Nat → Nat) (ops : List SalsaVerif.Model.Structs.Op)
        (w w' : SalsaVerif.Model.Structs.World) (op : SalsaVerif.Model.Structs.Op),
      SalsaVerif.Model.Structs.runOps hash SalsaVerif.Model.Structs.World.empty ops = .ok w →
      SalsaVerif.Model.Structs.step hash w op = .ok w' →
      ∀ (k : Nat) (v v' : SalsaVerif.Model.Structs.Slot), w.st.slots[k]? = some v →
        w'.st.slots[k]? = some v' → v'.gen ≠ v.gen →
        ∃ q cur dur ca g fields, op = .new q cur dur ca g fields ∧ v'.memos = [] ∧
          v'.fields = fields ∧ v'.updatedAt = some cur ∧ v'.gen = v.gen + 1) ∧
    (∀ (rev : Option Nat), rev ≠ some 0 → ∀ (s s' : Sys), Reachable rev s →
      ∀ (op : Op) (r : Ret) (i : Nat) (v v' : Slot), s.it.shard.slot? i = some v →
        stepSys s op = some (s', r) → s'.it.shard.slot? i = some v' →
        v'.generation ≠ v.generation →
        v'.generation = v.generation + 1 ∧ v'.memos = [] ∧
          ∃ d inq x, op = .intern d inq x ∧ r = .interned ⟨.reuse, i, v.generation + 1⟩ ∧
            v'.fields = x ∧ x ≠ v.fields) := by
  refine ⟨fun hash ops w w' op hreach h k v v' hv hv' hgen =>
    c07_clear_on_bump_structs hash ops w w' op hreach h k v v' hv hv' hgen, ?_⟩
  intro rev hrev s s' hr op r i v v' hv h hv' hgen
  obtain ⟨u, hu, hcase⟩ := c07_clear_on_bump_interned rev hrev s s' hr op r i v hv h
  rw [hv'] at hu
  injection hu with hu
  subst hu
  rcases hcase with ⟨hg, _⟩ | hc
  · exact absurd hg hgen
  · exact hc

open SalsaVerif.Model SalsaVerif.Proofs in
/-- Tracked structs: in every reachable world every memo stored in a slot was inserted under the
    slot's current generation, and that generation is the generation of every live handle (id)
    a creator holds for the slot. -/
theorem c07_memo_gen_structs (hash : Nat → Nat) (ops : List Structs.Op) (w : Structs.World)
    (hreach : Structs.runOps hash Structs.World.empty ops = .ok w) :
    (∀ (k : Nat) (v : Structs.Slot), w.st.slots[k]? = some v →
      ∀ m : Structs.Memo, m ∈ v.memos → m.gen = v.gen) ∧
    (∀ c ∈ w.ctxs, ∀ id ∈ Structs.ctxIds c,
      ∃ v, w.st.slots[id.idx]? = some v ∧ v.updatedAt ≠ none ∧ v.gen = id.gen) :=
  ⟨Structs.c07s_memo_gen hreach, fun _ hc _ hid => Structs.c07s_handle_gen hreach hc hid⟩

open SalsaVerif.Model in
example :
    (Structs.runOps (fun x => x % 10) Structs.World.empty
      [.spawn, .begin 0, .new 0 1 0 1 7 ⟨1, [5]⟩, .addMemo 0 41, .finish 0 1, .begin 0,
       .finish 0 2, .begin 0, .new 0 3 0 3 7 ⟨2, [6]⟩, .addMemo 0 42]).toOption.map
      (fun w => w.st.slots.map (fun v => (v.gen, v.memos))) = some [(1, [⟨42, 1⟩])] := by decide

/-- `c07_memo_gen`: every memo stored in a slot (tracked struct or interned value) was inserted
    under the slot's current generation. -/
theorem c07_memo_gen :
    (∀ (hash : Nat → Nat) (ops : List SalsaVerif.Model.Structs.Op)
        (w : SalsaVerif.Model.Structs.World),
      SalsaVerif.Model.Structs.runOps hash SalsaVerif.Model.Structs.World.empty ops = .ok w →
      ∀ (k : Nat) (v : SalsaVerif.Model.Structs.Slot), w.st.slots[k]? = some v →
        ∀ m : SalsaVerif.Model.Structs.Memo, m ∈ v.memos → m.gen = v.gen) ∧
    (∀ (rev : Option Nat), rev ≠ some 0 → ∀ (s : Sys), Reachable rev s →
      ∀ (i : Nat) (v : Slot), s.it.shard.slot? i = some v → ∀ m ∈ v.memos, m = v.generation) :=
  ⟨fun hash ops w h => (c07_memo_gen_structs hash ops w h).1,
   fun rev hrev s hr i v hv => c07_memo_gen_interned rev hrev s hr i v hv⟩

open SalsaVerif.Model SalsaVerif.Proofs in
/-- A tracked struct created, updated or read in revision `r` (`updated_at = Some(r)`; both
    `Struct::new` and a field read stamp the slot) is not deleted in `r`: `delete_entity` refuses
    with the "read-locked" panic and the model returns no successor state; the slot is not on
    the free list; and in a reachable world no `new`, `finish`, `discard` or `read` op running in
    `r` changes the slot at all — in particular its generation is not bumped and its memos are
    kept.  (In Rust the `updated_at.swap(None)` precedes the panic: what a *caught* delete panic
    leaves behind is `deleteEntityUnwound` — the slot is write-locked for ever and leaked, never
    re-issued.) -/
theorem c07_no_reuse_in_rev_structs (hash : Nat → Nat) (ops : List Structs.Op) (w : Structs.World)
    (hreach : Structs.runOps hash Structs.World.empty ops = .ok w) (k r : Nat) (v : Structs.Slot)
    (hv : w.st.slots[k]? = some v) (hu : v.updatedAt = some r) :
    (∀ g gen, Structs.deleteEntity w.st r g ⟨k, gen⟩ = .error .deleteReadLocked) ∧
    k ∉ Structs.freeIdxs w.st.free ∧
    (∀ w', (∀ q dur ca g fields, Structs.step hash w (.new q r dur ca g fields) = .ok w' →
        w'.st.slots[k]? = some v) ∧
      (∀ q, Structs.step hash w (.finish q r) = .ok w' → w'.st.slots[k]? = some v) ∧
      (∀ q, Structs.step hash w (.discard q r) = .ok w' → w'.st.slots[k]? = some v) ∧
      (∀ idx, Structs.step hash w (.read r idx) = .ok w' → w'.st.slots[k]? = some v)) ∧
    (∀ (s1 : Structs.State) (cur idx : Nat), Structs.readField w.st cur idx = .ok s1 →
      ∃ u, s1.slots[idx]? = some u ∧ u.updatedAt = some cur) := by
  have hI := Structs.runOps_inv Structs.winv_empty hreach
  refine ⟨fun g gen => Structs.c07s_no_delete_in_rev (id := ⟨k, gen⟩) hv hu, ?_, ?_, ?_⟩
  · exact Structs.c07s_stamped_not_free hI.freeOK hv hu
  · intro w'
    exact Structs.c07s_frozen_step hI hv hu
  · intro s1 cur idx h
    exact Structs.c07s_read_stamps h

open SalsaVerif.Model in
/-- the struct is read in revision 2; a re-execution in revision 2 that does not re-create it
    makes `finish` (diff_outputs → delete_entity) panic instead of freeing the slot. -/
example :
    Structs.runOps (fun x => x % 10) Structs.World.empty
      [.spawn, .begin 0, .new 0 1 0 1 7 ⟨1, [5]⟩, .finish 0 1, .read 2 0, .begin 0, .finish 0 2]
      = .error .deleteReadLocked ∧
    (Structs.runOps (fun x => x % 10) Structs.World.empty
      [.spawn, .begin 0, .new 0 1 0 1 7 ⟨1, [5]⟩, .finish 0 1, .read 2 0]).toOption.map
      (fun w => w.st.slots.map (fun v => v.updatedAt)) = some [some 2] := ⟨rfl, by decide⟩

/-- `c07_no_reuse_in_rev`: a struct read or created in revision `r` is not deleted in `r`, and an
    interned value touched in `r` is not reused in `r`. -/
theorem c07_no_reuse_in_rev :
    (∀ (hash : Nat → Nat) (ops : List SalsaVerif.Model.Structs.Op)
        (w : SalsaVerif.Model.Structs.World),
      SalsaVerif.Model.Structs.runOps hash SalsaVerif.Model.Structs.World.empty ops = .ok w →
      ∀ (k r : Nat) (v : SalsaVerif.Model.Structs.Slot), w.st.slots[k]? = some v →
        v.updatedAt = some r →
        ∀ g gen, SalsaVerif.Model.Structs.deleteEntity w.st r g ⟨k, gen⟩ =
          .error .deleteReadLocked) ∧
    (∀ (rev : Option Nat), rev ≠ some 0 → ∀ (s s' : Sys), Reachable rev s →
      ∀ (i : Nat) (v : Slot), s.it.shard.slot? i = some v → s.cur ≤ v.lastInternedAt →
      ∀ (ops : List Op) (log : List Ev), (∀ op ∈ ops, op ≠ .newRev) →
        runSys s ops = some (s', log) →
        ∃ v', s'.it.shard.slot? i = some v' ∧ v'.fields = v.fields ∧
          v'.generation = v.generation) :=
  ⟨fun hash ops w h k r v hv hu => (c07_no_reuse_in_rev_structs hash ops w h k r v hv hu).1,
   fun rev hrev s s' hr i v hv ht ops log hops h =>
     (c07_no_reuse_in_rev_interned rev hrev s s' hr i v hv ht ops log hops h).2⟩

end SalsaVerif.Props.C07
