/-
  C07 — reclaimed identities never alias.

  Models: SalsaVerif/Model/Intern.lean (interned values, src/interned.rs) and
  SalsaVerif/Model/Structs.lean (tracked structs, src/tracked_struct.rs).  The interned half is
  stated over histories of the single-shard interner (`Reachable rev s`, see Props/C08); the
  tracked-struct half over the op sequences of the struct table (see Props/C06).

  A slot's identity is (slot index, generation).  Every step that hands the slot to a new value
  bumps the generation, clears the memos and replaces the fields (`c07_clear_on_bump*`); memos
  are always tagged with the current generation (`c07_memo_gen*`); a dependency edge on an
  interned value recorded under an older generation is reported as changed
  (`c07_intern_dep_detects`); nothing touched in the current revision is reclaimed in it
  (`c07_no_reuse_in_rev*`).

  NOT YET PROVED (not in this file):
    c07_no_stale_handle : in a state of the full engine satisfying `Inv`, every struct / interned
      id contained in the value of a memo verified at `cur` denotes a live slot of the same
      generation.  Needs the engine model (stage S4 of DESIGN.md); only the component theorems
      below are proved.
-/
import SalsaVerif.Model.Intern
import SalsaVerif.Proofs.InternHist

namespace SalsaVerif.Props.C07
open SalsaVerif.Model.Intern SalsaVerif.Proofs.Intern

/-- Interned values: a step changes the generation of a slot only by reusing it — the step is
    an `intern` of a different value answering `reuse` with the next generation — and it leaves
    the memo table empty and the fields replaced by the new value.  Every other step leaves
    generation and fields alone. -/
theorem c07_clear_on_bump_interned (rev : Option Nat) (hrev : rev ≠ some 0) (s s' : Sys)
    (hr : Reachable rev s) (op : Op) (r : Ret) (i : Nat) (v : Slot)
    (hv : s.it.shard.slot? i = some v) (h : stepSys s op = some (s', r)) :
    ∃ v', s'.it.shard.slot? i = some v' ∧
      ((v'.generation = v.generation ∧ v'.fields = v.fields) ∨
       (v'.generation = v.generation + 1 ∧ v'.memos = [] ∧
        ∃ d inq x, op = .intern d inq x ∧ r = .interned ⟨.reuse, i, v.generation + 1⟩ ∧
          v'.fields = x ∧ x ≠ v.fields)) :=
  gen_step (inv_of_reachable hrev hr) hv h

/-- revisions = 1: value 7 gets a memo, is reused for value 8 in the next revision: generation 1,
    no memos, new fields. -/
example :
    (runSys (Sys.init (some 1)) [.intern 0 true 7, .addMemo 0, .newRev, .intern 0 true 8]).map
      (fun r => (r.1.it.shard.slots, r.2.map (·.ret))) =
    some ([⟨0, 8, 1, 2, 0, []⟩], [.interned ⟨.new, 0, 0⟩, .unit, .unit, .interned ⟨.reuse, 0, 1⟩]) := by
  decide

/-- Interned values: every memo stored in a slot was inserted under the slot's current
    generation. -/
theorem c07_memo_gen_interned (rev : Option Nat) (hrev : rev ≠ some 0) (s : Sys)
    (hr : Reachable rev s) (i : Nat) (v : Slot) (hv : s.it.shard.slot? i = some v) :
    ∀ m ∈ v.memos, m = v.generation :=
  (inv_of_reachable hrev hr).shard.memo_gen i v hv

example :
    (runSys (Sys.init (some 1))
      [.intern 0 true 7, .addMemo 0, .newRev, .intern 0 true 8, .addMemo 0, .addMemo 0]).map
      (fun r => r.1.it.shard.slots.map (fun v => (v.generation, v.memos))) = some [(1, [1, 1])] := by
  decide

/-- A dependency edge `(id, g)` on an interned value: `maybe_changed_after` answers `changed`
    exactly when the slot's generation is above `g`.  Along any history the generation of a slot
    never decreases and the value can only change together with the generation, so an edge
    recorded when the slot held `(x, g)` is reported unchanged only if the slot still holds `x`
    at generation `g`. -/
theorem c07_intern_dep_detects (rev : Option Nat) (hrev : rev ≠ some 0) (s s' : Sys)
    (hr : Reachable rev s) (i : Nat) (v : Slot) (hv : s.it.shard.slot? i = some v)
    (ops : List Op) (log : List Ev) (h : runSys s ops = some (s', log)) :
    ∃ v', s'.it.shard.slot? i = some v' ∧ v.generation ≤ v'.generation ∧
      (v'.generation = v.generation → v'.fields = v.fields) ∧
      (∀ g, ∃ s'', stepSys s' (.mca i g) = some (s'', .verified (decide (v'.generation > g)))) := by
  have inv := inv_of_reachable hrev hr
  have inv' := inv_run inv h
  obtain ⟨v', hv', hle, heq⟩ := gen_run inv hv h
  refine ⟨v', hv', hle, heq, ?_⟩
  intro g
  obtain ⟨q', hq, _, _⟩ := recordIfMortal_some inv'.qne s'.cur
  simp only [stepSys, Interner.maybeChangedAfter, hq, hv']
  by_cases hg : v'.generation > g
  · simp [hg]
  · simp [hg]

example :
    (runSys (Sys.init (some 1))
      [.intern 0 true 7, .newRev, .mca 0 0, .newRev, .intern 0 true 8, .mca 0 0, .mca 0 1]).map
      (fun r => r.2.map (·.ret)) =
    some [.interned ⟨.new, 0, 0⟩, .unit, .verified false, .unit, .interned ⟨.reuse, 0, 1⟩,
          .verified true, .verified false] := by decide

/-- An interned value touched in revision `r` — interned or validated, `last_interned_at ≥ r` —
    is not reused in `r`: it is not stale for any reuse scan now, and along every history that
    stays in the revision it keeps its value and generation. -/
theorem c07_no_reuse_in_rev_interned (rev : Option Nat) (hrev : rev ≠ some 0) (s s' : Sys)
    (hr : Reachable rev s) (i : Nat) (v : Slot) (hv : s.it.shard.slot? i = some v)
    (htouched : s.cur ≤ v.lastInternedAt)
    (ops : List Op) (log : List Ev) (hops : ∀ op ∈ ops, op ≠ .newRev)
    (h : runSys s ops = some (s', log)) :
    (∀ q', recordIfMortal s.it.revisions s.it.queue s.cur = some q' →
      q'.isStale v.lastInternedAt = false) ∧
    ∃ v', s'.it.shard.slot? i = some v' ∧ v'.fields = v.fields ∧ v'.generation = v.generation := by
  have inv := inv_of_reachable hrev hr
  refine ⟨notStale_of_touched inv htouched, ?_⟩
  obtain ⟨v', hv', hf, hg, _⟩ :=
    protected_run inv ⟨v, hv, rfl, rfl, Or.inl htouched⟩ hops h
  exact ⟨v', hv', hf, hg⟩

/-- revisions = 1, value 7 of revision 1 is validated in revision 2 and therefore survives the
    interning of 8 (which would otherwise have reused its slot, as in the first example). -/
example :
    (runSys (Sys.init (some 1)) [.intern 0 true 7, .newRev, .mca 0 0, .intern 0 true 8]).map
      (fun r => r.2.map (·.ret)) =
    some [.interned ⟨.new, 0, 0⟩, .unit, .verified false, .interned ⟨.new, 1, 0⟩] := by decide

end SalsaVerif.Props.C07
