/-
  GenLogicRuntime (part of GenLogic) — the revision / durability bookkeeping of WRITES in the
  hand-written engine models is the bookkeeping of the current sources.

  `Gen/LogicRuntime.lean` is regenerated from /repo on every run: `Runtime::current_revision`,
  `report_tracked_write` (its assertion, the bounds of the slice it fills and the value it fills with),
  `last_changed_revision` / `never_changed_revision`, `new_revision`, `Revision::start/next`, the
  initial `revisions` array, `Database::synthetic_write`, the generated `ingredient_mut` (revision
  bump before the setter), `IngredientImpl::set_field` (assertion, stamp, which durability is
  reported and when, the new durability), `IngredientImpl::field` (the stamps a read reports) and the
  input field's `maybe_changed_after` comparison.  Every body is matched IN FULL against a pattern
  whose only free parts are the translated constants / operators, so any other edit is a
  TranslateError.

  PROVED (all theorems below, axioms ⊆ {propext, Quot.sound, Classical.choice}): for the runtime
  array `revs s = [s.cur, s.lch 1, s.lch 2]` of a model state,
  * `write` / `synth` of `Model/Core`, `Core3`, `CoreSpec`, `CoreAcc` produce exactly the array, the
    field stamps and the panic verdict of the generated `setField` / `syntheticWrite`, for every state
    and every durability ≤ NEVER_CHANGE;
  * `lc` is the generated `last_changed_revision` for LOW..HIGH, and for NEVER_CHANGE on every
    REACHABLE state of `Core` (the slot that does not exist reads `Revision::start()`; the model
    keeps `lch 3 = 1`);
  * the input-field comparison of deep verification is `revisions[f] > rev`, a field read reports the field's own stamps;
  * READS: `frame0` = generated `ActiveQuery::new`; `Frame.push` = generated `add_read_simple` / `add_read` (stamps by
    max / min, edge recorded iff durability ≠ NEVER_CHANGE — or, with accumulators, the accumulated flag — in the
    non-persistence build); `Frame.pushCell` = generated `add_untracked_read`.
  * `CycleRev.write / synth / lastChanged` (list-shaped `lch`) likewise, for every state whose `lch` has the 3 slots.
  Both seeded edits of `report_tracked_write` (C02-1: only the written slot; C01-2: only level d)
  break `genlogic_rt_report` (the closed form below), as does any change of the slice bounds.
-/
import SalsaVerif.Gen.LogicRuntime
import SalsaVerif.Model.Core
import SalsaVerif.Model.Core3
import SalsaVerif.Model.CoreSpec
import SalsaVerif.Model.CoreAcc
import SalsaVerif.Model.CycleRev
import SalsaVerif.Proofs.CoreTop
import SalsaVerif.Proofs.Core3EvictTop

namespace SalsaVerif.Props.GenLogic.Runtime
open SalsaVerif.Gen SalsaVerif.Gen.LogicRuntime

/-- the runtime's `revisions` array of a model state (`Durability::LEN = 3` slots) -/
def revs (cur : Nat) (lch : Nat → Nat) : List Nat := [cur, lch 1, lch 2]

/-- the model's array has the generated length and the fresh database the generated contents -/
theorem genlogic_rt_initial : initialRevisions = revs 1 (fun _ => 1) := by decide

@[simp] theorem cur_revs (c l) : currentRevision (revs c l) = c := rfl

@[simp] theorem new_revs (c l) : newRevision (revs c l) = revs (c + 1) l := rfl

/-- closed form of the generated `report_tracked_write`: slots 1..=d get the current revision -/
theorem genlogic_rt_report (c : Nat) (l : Nat → Nat) (d : Nat) :
    reportTrackedWrite (revs c l) d = revs c (fun k => if k ≤ d then c else l k) := by
  simp [reportTrackedWrite, revs, currentRevision, List.mapIdx_cons]

/-- LOW is never reported by `set_field`, and reporting LOW would change nothing -/
theorem genlogic_rt_report_low (c : Nat) (l : Nat → Nat) :
    reportTrackedWrite (revs c l) 0 = revs c l := by
  simp [reportTrackedWrite, revs, currentRevision, List.mapIdx_cons]

/-- `last_changed_revision` on the model's array -/
theorem genlogic_rt_last_changed (c : Nat) (l : Nat → Nat) (d : Nat) :
    lastChangedRevision (revs c l) d =
      if d = 0 then c else if d = 1 then l 1 else if d = 2 then l 2 else 1 := by
  match d with
  | 0 => rfl
  | 1 => rfl
  | 2 => rfl
  | d + 3 => simp [lastChangedRevision, revs, Revision_start]

theorem genlogic_rt_panics (d : Nat) (h : d ≤ 3) : reportTrackedWritePanics d = decide (d ≥ 3) := by
  have : d = 0 ∨ d = 1 ∨ d = 2 ∨ d = 3 := by omega
  rcases this with h | h | h | h <;> subst h <;> decide

theorem bne3 (n : Nat) : (n != 3) = !decide (n = 3) := by
  by_cases h : n = 3 <;> simp [h]

theorem revs_congr {c c' : Nat} {l l' : Nat → Nat} (hc : c = c') (h1 : l 1 = l' 1) (h2 : l 2 = l' 2) :
    revs c l = revs c' l' := by simp [revs, hc, h1, h2]

/-- generic statement about a synthetic write, instantiated per model below -/
theorem synth_generic (c : Nat) (l : Nat → Nat) (d : Nat) (h : d ≤ 3) :
    syntheticWrite (revs c l) d =
      (if d ≥ 3 then revs (c + 1) l else revs (c + 1) (fun k => if k ≤ d then c + 1 else l k), decide (d ≥ 3)) := by
  simp only [syntheticWrite, new_revs, genlogic_rt_panics d h, genlogic_rt_report]
  by_cases hd : d ≥ 3 <;> simp [hd]

/-- generic statement about `set_field` -/
theorem setField_generic (c : Nat) (l : Nat → Nat) (ca dur : Nat) (nd : Option Nat) (h : dur ≤ 3) :
    setField (revs c l) ⟨ca, dur⟩ nd =
      if dur ≥ 3 then (revs (c + 1) l, ⟨ca, dur⟩, true)
      else (revs (c + 1) (fun k => if k ≤ dur then c + 1 else l k),
            ⟨c + 1, (match nd with | some d => d | none => dur)⟩, false) := by
  have hp : setFieldPanics ⟨ca, dur⟩ = decide (dur ≥ 3) := genlogic_rt_panics dur h
  simp only [setField, new_revs, hp, cur_revs]
  by_cases hd : dur ≥ 3
  · simp [hd]
  · simp only [hd, decide_false, Bool.false_eq_true, ↓reduceIte]
    have hr : (if setFieldReports ⟨ca, dur⟩ = true then reportTrackedWrite (revs (c + 1) l) dur else revs (c + 1) l)
        = revs (c + 1) (fun k => if k ≤ dur then c + 1 else l k) := by
      by_cases h0 : dur = 0
      · subst h0
        simp [setFieldReports, Consts.Durability_Low, revs]
      · have : setFieldReports ⟨ca, dur⟩ = true := by simp [setFieldReports, Consts.Durability_Low, h0]
        simp [this, genlogic_rt_report]
    rw [hr]
    cases nd <;> rfl

/-! ## Model/Core -/
section Core
open SalsaVerif.Model.Core

def revsC (s : State) : List Nat := revs s.cur s.lch
def stampC (s : State) (i : Nat) : FieldStamp := ⟨(s.inp i).ca, (s.inp i).dur⟩

theorem genlogic_rt_core_synth (s : State) (d : Nat) (h : d ≤ 3) :
    syntheticWrite (revsC s) d = (revsC (synth s d), synthPanics d) := by
  unfold revsC; rw [synth_generic _ _ _ h]
  unfold synth synthPanics
  by_cases hd : d ≥ 3 <;> simp [hd]

theorem genlogic_rt_core_write (s : State) (i v : Nat) (nd : Option Nat) (h : (s.inp i).dur ≤ 3) :
    setField (revsC s) (stampC s i) nd = (revsC (write s i v nd), stampC (write s i v nd) i, writePanics s i) := by
  unfold revsC stampC; rw [setField_generic _ _ _ _ _ h]
  unfold write writePanics
  by_cases hd : (s.inp i).dur ≥ 3 <;> simp [hd] <;> cases nd <;> rfl

/-- a write leaves the stamps of every OTHER field alone (in the source: only `data` of `id` is touched) -/
theorem genlogic_rt_core_write_other (s : State) (i j v : Nat) (nd : Option Nat) (hj : j ≠ i) :
    (write s i v nd).inp j = s.inp j := by
  unfold write; by_cases hd : (s.inp i).dur ≥ 3 <;> simp [hd, hj]

theorem genlogic_rt_core_lc (s : State) (d : Nat) (h : d ≤ 2) : lastChangedRevision (revsC s) d = lc s d := by
  unfold revsC lc; rw [genlogic_rt_last_changed]
  have : d = 0 ∨ d = 1 ∨ d = 2 := by omega
  rcases this with h | h | h <;> subst h <;> simp

/-- the slot NEVER_CHANGE does not have: `lch 3` stays `Revision::start()` on every reachable state -/
theorem lch_never_step {P} (hP : SalsaVerif.Proofs.Core.Wf P) (s : State) (op : Op)
    (hI : SalsaVerif.Proofs.Core.Inv P s) (h3 : ∀ d, d ≥ 3 → s.lch d = 1) :
    ∀ d, d ≥ 3 → (step P s op).lch d = 1 := by
  intro d hd
  cases op with
  | get q =>
    obtain ⟨_, a2, _⟩ := (SalsaVerif.Proofs.Core.eng_ok hP (q + 1)).1.ok s q (Nat.lt_succ_self q) hI
    show (fetch P s q).1.lch d = 1
    have : (fetch P s q).1.lch = s.lch := a2.lch
    rw [this]; exact h3 d hd
  | set i v nd =>
    show (write s i v nd).lch d = 1
    unfold write
    by_cases hx : (s.inp i).dur ≥ 3
    · simp [hx, h3 d hd]
    · have : ¬ d ≤ (s.inp i).dur := by omega
      simp [hx, this, h3 d hd]
  | synth d' =>
    show (synth s d').lch d = 1
    unfold synth
    by_cases hx : d' ≥ 3
    · simp [hx, h3 d hd]
    · have : ¬ d ≤ d' := by omega
      simp [hx, this, h3 d hd]

theorem lch_never_run {P} (hP : SalsaVerif.Proofs.Core.Wf P) (inp : Nat → Inp) (ops : List Op) :
    ∀ d, d ≥ 3 → (run P inp ops).lch d = 1 := by
  unfold run
  suffices H : ∀ (ops : List Op) (s : State), SalsaVerif.Proofs.Core.Inv P s → (∀ d, d ≥ 3 → s.lch d = 1) →
      ∀ d, d ≥ 3 → (ops.foldl (step P) s).lch d = 1 from
    H ops _ (SalsaVerif.Proofs.Core.init_inv P inp) (fun _ _ => rfl)
  intro ops
  induction ops with
  | nil => intro s _ h; exact h
  | cons op rest ih =>
    intro s hI h
    exact ih _ (SalsaVerif.Proofs.Core.step_inv hP s op hI) (lch_never_step hP s op hI h)

/-- on every reachable state `lc` IS the generated `last_changed_revision`, for every durability
    (NEVER_CHANGE included: the missing slot reads `Revision::start()`) -/
theorem genlogic_rt_core_lc_reachable {P} (hP : SalsaVerif.Proofs.Core.Wf P) (inp : Nat → Inp) (ops : List Op)
    (d : Nat) :
    lastChangedRevision (revsC (run P inp ops)) d = lc (run P inp ops) d := by
  by_cases h : d ≤ 2
  · exact genlogic_rt_core_lc _ d h
  · unfold revsC lc; rw [genlogic_rt_last_changed]
    have h3 := lch_never_run hP inp ops d (by omega)
    have : d ≠ 0 ∧ d ≠ 1 ∧ d ≠ 2 := by omega
    simp [this.1, this.2.1, this.2.2, h3]

/-- deep verification asks an input field exactly the generated question `revisions[f] > rev` -/
theorem genlogic_rt_core_input_changed (mc : McaFn) (s : State) (i rev : Nat) :
    (depChanged mc s (.inp i) rev).2 = fieldChangedAfter (stampC s i) rev := rfl

/-- a read of an input field reports the field's own `(durability, revision)` stamps -/
theorem genlogic_rt_core_input_read (fe : FetchFn) (s : State) (i : Nat) :
    ((readDep fe s (.inp i)).2.dur, (readDep fe s (.inp i)).2.ca) = fieldRead (stampC s i) := rfl

/-! reads: `Frame` is the running `ActiveQuery` -/
def astC (f : Frame) : ActiveStamp := ⟨f.ca, f.dur, false⟩

theorem genlogic_rt_core_frame0 : astC frame0 = activeNew := by decide

/-- `Frame.push` = the generated `add_read_simple` (inputs) = the generated `add_read` of a dependency without cycle
    heads or accumulated values (functions), non-persistence build: stamps AND whether the edge is recorded -/
theorem genlogic_rt_core_push (f : Frame) (d : Dep) (r : Res) :
    addReadSimple (astC f) r.dur r.ca false = (astC (f.push d r), decide (r.dur ≠ 3)) ∧
    addRead (astC f) r.dur r.ca true false false false = (astC (f.push d r), decide (r.dur ≠ 3), false) ∧
    (f.push d r).obs = f.obs ++ [⟨d, r.val, (addReadSimple (astC f) r.dur r.ca false).2⟩] := by
  refine ⟨?_, ?_, ?_⟩ <;>
    simp [addReadSimple, addRead, astC, Frame.push, Consts.Durability_NeverChange, bne3]

end Core

/-! ## Model/Core3 (kinds, cells, LRU) -/
section Core3
open SalsaVerif.Model.Core3

def revs3 (s : State) : List Nat := revs s.cur s.lch
def stamp3 (s : State) (i : Nat) : FieldStamp := ⟨(s.inp i).ca, (s.inp i).dur⟩

theorem bumpRev_cur (s : State) : (bumpRev s).cur = s.cur + 1 := by
  have h := (SalsaVerif.Proofs.Core3E.evictLru_frame { s with cur := s.cur + 1, wlog := (s.cur + 1, 0) :: s.wlog }).1
  exact h
theorem bumpRev_lch (s : State) : (bumpRev s).lch = s.lch := by
  have h := (SalsaVerif.Proofs.Core3E.evictLru_frame { s with cur := s.cur + 1, wlog := (s.cur + 1, 0) :: s.wlog }).2.1
  exact h
theorem bumpRev_inp (s : State) : (bumpRev s).inp = s.inp := by
  have h := (SalsaVerif.Proofs.Core3E.evictLru_frame { s with cur := s.cur + 1, wlog := (s.cur + 1, 0) :: s.wlog }).2.2.1
  exact h

theorem genlogic_rt_core3_synth (s : State) (d : Nat) (h : d ≤ 3) :
    syntheticWrite (revs3 s) d = (revs3 (synth s d), synthPanics d) := by
  unfold revs3; rw [synth_generic _ _ _ h]
  unfold synth synthPanics
  by_cases hd : d ≥ 3 <;> simp [hd, bumpRev_cur, bumpRev_lch]

theorem genlogic_rt_core3_write (s : State) (i v : Nat) (nd : Option Nat) (h : (s.inp i).dur ≤ 3) :
    setField (revs3 s) (stamp3 s i) nd = (revs3 (write s i v nd), stamp3 (write s i v nd) i, writePanics s i) := by
  unfold revs3 stamp3; rw [setField_generic _ _ _ _ _ h]
  unfold write writePanics
  by_cases hd : (s.inp i).dur ≥ 3 <;> simp [hd, bumpRev_cur, bumpRev_lch, bumpRev_inp] <;> cases nd <;> rfl

theorem genlogic_rt_core3_input_changed (mc : McaFn) (s : State) (i rev : Nat) :
    (depChanged mc s (.inp i) rev).2 = fieldChangedAfter (stamp3 s i) rev := rfl

def ast3 (f : Frame) : ActiveStamp := ⟨f.ca, f.dur, f.untracked⟩

theorem genlogic_rt_core3_frame0 : ast3 frame0 = activeNew := by decide

theorem genlogic_rt_core3_push (f : Frame) (d : Dep) (r : Res) :
    addReadSimple (ast3 f) r.dur r.ca false = (ast3 (f.push d r), decide (r.dur ≠ 3)) ∧
    addRead (ast3 f) r.dur r.ca true false false false = (ast3 (f.push d r), decide (r.dur ≠ 3), false) ∧
    (f.push d r).obs = f.obs ++ [⟨d, r.val, (addReadSimple (ast3 f) r.dur r.ca false).2⟩] := by
  refine ⟨?_, ?_, ?_⟩ <;>
    simp [addReadSimple, addRead, ast3, Frame.push, Consts.Durability_NeverChange, bne3]

/-- an untracked read (`report_untracked_read(current_revision)`): stamps overwritten, no edge -/
theorem genlogic_rt_core3_push_cell (f : Frame) (cur c v : Nat) :
    addUntrackedRead (ast3 f) cur = ast3 (f.pushCell cur c v) := by
  simp [addUntrackedRead, ast3, Frame.pushCell, Consts.Durability_Low]

end Core3

/-! ## Model/CoreSpec (tracked structs, specify) -/
section CoreSpec
open SalsaVerif.Model.CoreSpec

def revsS (s : State) : List Nat := revs s.cur s.lch
def stampS (s : State) (i : Nat) : FieldStamp := ⟨(s.inp i).ca, (s.inp i).dur⟩

theorem genlogic_rt_spec_synth (s : State) (d : Nat) (h : d ≤ 3) :
    syntheticWrite (revsS s) d = (revsS (synth s d), synthPanics d) := by
  unfold revsS; rw [synth_generic _ _ _ h]
  unfold synth synthPanics
  by_cases hd : d ≥ 3 <;> simp [hd]

theorem genlogic_rt_spec_write (s : State) (i v : Nat) (nd : Option Nat) (h : (s.inp i).dur ≤ 3) :
    setField (revsS s) (stampS s i) nd = (revsS (write s i v nd), stampS (write s i v nd) i, writePanics s i) := by
  unfold revsS stampS; rw [setField_generic _ _ _ _ _ h]
  unfold write writePanics
  by_cases hd : (s.inp i).dur ≥ 3 <;> simp [hd] <;> cases nd <;> rfl

theorem genlogic_rt_spec_input_changed (mc : McaFn) (SB : Nat → Nat → Body) (s : State) (i rev : Nat) :
    (depChanged mc SB s (.inp i) rev).2 = fieldChangedAfter (stampS s i) rev := rfl

def astS (f : Frame) : ActiveStamp := ⟨f.ca, f.dur, false⟩

theorem genlogic_rt_spec_frame0 (seed : Option Nat) : astS (frame0 seed) = activeNew := by
  simp [astS, frame0, activeNew, Revision_start, Consts.Durability_NeverChange]

theorem genlogic_rt_spec_push (f : Frame) (d : Dep) (r : Res) :
    addReadSimple (astS f) r.dur r.ca false = (astS (f.push d r), decide (r.dur ≠ 3)) ∧
    addRead (astS f) r.dur r.ca true false false false = (astS (f.push d r), decide (r.dur ≠ 3), false) := by
  refine ⟨?_, ?_⟩ <;>
    simp [addReadSimple, addRead, astS, Frame.push, Consts.Durability_NeverChange, bne3]

end CoreSpec

/-! ## Model/CoreAcc (accumulators) -/
section CoreAcc
open SalsaVerif.Model.CoreAcc

def revsA (s : State) : List Nat := revs s.cur s.lch
def stampA (s : State) (i : Nat) : FieldStamp := ⟨(s.inp i).ca, (s.inp i).dur⟩

theorem genlogic_rt_acc_synth (s : State) (d : Nat) (h : d ≤ 3) :
    syntheticWrite (revsA s) d = (revsA (synth s d), synthPanics d) := by
  unfold revsA; rw [synth_generic _ _ _ h]
  unfold synth synthPanics
  by_cases hd : d ≥ 3 <;> simp [hd]

theorem genlogic_rt_acc_write (s : State) (i v : Nat) (nd : Option Nat) (h : (s.inp i).dur ≤ 3) :
    setField (revsA s) (stampA s i) nd = (revsA (write s i v nd), stampA (write s i v nd) i, writePanics s i) := by
  unfold revsA stampA; rw [setField_generic _ _ _ _ _ h]
  unfold write writePanics
  by_cases hd : (s.inp i).dur ≥ 3 <;> simp [hd] <;> cases nd <;> rfl

theorem genlogic_rt_acc_input_changed (mc : McaFn) (s : State) (i rev : Nat) :
    (depChanged mc s (.inp i) rev).2.1 = fieldChangedAfter (stampA s i) rev := rfl

def astA (f : Frame) : ActiveStamp := ⟨f.ca, f.dur, false⟩

theorem genlogic_rt_acc_frame0 : astA frame0 = activeNew := by decide

/-- with accumulators: the edge of a NEVER_CHANGE dependency is kept iff it has, or transitively reads,
    accumulated values, and the frame's `accumulated_inputs` is OR-ed with exactly that flag -/
theorem genlogic_rt_acc_push (f : Frame) (d : Dep) (r : Res) :
    addRead (astA f) r.dur r.ca true r.hasAcc r.accIn false =
      (astA (f.push d r), decide (r.dur ≠ 3) || (r.hasAcc || r.accIn), (r.hasAcc || r.accIn)) ∧
    (f.push d r).accIn = (f.accIn || (addRead (astA f) r.dur r.ca true r.hasAcc r.accIn false).2.2) ∧
    (f.push d r).obs = f.obs ++ [⟨d, r.val, (addRead (astA f) r.dur r.ca true r.hasAcc r.accIn false).2.1⟩] := by
  refine ⟨?_, ?_, ?_⟩ <;>
    cases h1 : r.hasAcc <;> cases h2 : r.accIn <;>
    simp [addRead, astA, Frame.push, Consts.Durability_NeverChange, bne3, h1, h2]

end CoreAcc

/-! ## Model/CycleRev (list-shaped `lch`, slot 0 unused) -/
section CycleRev
open SalsaVerif.Model.CycleRev

def revsR (s : St) : List Nat := s.lch.set 0 s.cur

theorem len3 {l : List Nat} (h : l.length = 3) : ∃ a b c, l = [a, b, c] := by
  match l, h with
  | [a, b, c], _ => exact ⟨a, b, c, rfl⟩

theorem genlogic_rt_cyclerev_synth (s : St) (d : Nat) (hd : d ≤ 3) (hl : s.lch.length = 3) :
    (syntheticWrite (revsR s) d).1 = revsR (synth s d) ∧ (synth s d).lch.length = 3 := by
  obtain ⟨a, b, c, h⟩ := len3 hl
  have : d = 0 ∨ d = 1 ∨ d = 2 ∨ d = 3 := by omega
  rcases this with h' | h' | h' | h' <;> subst h' <;>
    simp [syntheticWrite, revsR, synth, h, newRevision, reportTrackedWrite, reportTrackedWritePanics, currentRevision,
      Revision_next, Consts.Durability_NeverChange, List.mapIdx_cons]

theorem genlogic_rt_cyclerev_last_changed (s : St) (d : Nat) (hl : s.lch.length = 3) :
    lastChangedRevision (revsR s) d = lastChanged s d := by
  obtain ⟨a, b, c, h⟩ := len3 hl
  match d with
  | 0 => simp [lastChangedRevision, revsR, lastChanged, h]
  | 1 => simp [lastChangedRevision, revsR, lastChanged, h]
  | 2 => simp [lastChangedRevision, revsR, lastChanged, h]
  | d + 3 => simp [lastChangedRevision, revsR, lastChanged, h, Revision_start]

theorem genlogic_rt_cyclerev_write (s : St) (i v : Nat) (nd : Option Nat) (hl : s.lch.length = 3)
    (hd : (s.inp.getD i ⟨0, 1, 0⟩).dur ≤ 3) :
    (setField (revsR s) ⟨(s.inp.getD i ⟨0, 1, 0⟩).ca, (s.inp.getD i ⟨0, 1, 0⟩).dur⟩ nd).1 = revsR (write s i v nd) ∧
    (write s i v nd).lch.length = 3 := by
  obtain ⟨a, b, c, h⟩ := len3 hl
  generalize hx : s.inp.getD i ⟨0, 1, 0⟩ = x at hd
  have hx' : s.inp[i]?.getD ⟨0, 1, 0⟩ = x := by simpa [List.getD_eq_getElem?_getD] using hx
  have : x.dur = 0 ∨ x.dur = 1 ∨ x.dur = 2 ∨ x.dur = 3 := by omega
  rcases this with h' | h' | h' | h' <;>
    simp [setField, setFieldPanics, setFieldReports, revsR, write, hx, hx', h, h', newRevision, reportTrackedWrite,
      currentRevision, Revision_next, Consts.Durability_NeverChange, Consts.Durability_Low, List.mapIdx_cons]

end CycleRev

/-! ## non-vacuity: the hypotheses are met by concrete states, and the closed form is sharp -/

example : syntheticWrite [5, 3, 2] 1 = ([6, 6, 2], false) := by decide
example : syntheticWrite [5, 3, 2] 2 = ([6, 6, 6], false) := by decide
example : syntheticWrite [5, 3, 2] 0 = ([6, 3, 2], false) := by decide
example : syntheticWrite [5, 3, 2] 3 = ([6, 3, 2], true) := by decide
/-- HIGH field lowered to LOW in the same write: the OLD durability is reported, the new one stored -/
example : setField [5, 3, 2] ⟨2, 2⟩ (some 0) = ([6, 6, 6], ⟨6, 0⟩, false) := by decide
/-- LOW field raised to NEVER_CHANGE: nothing reported; the next write is rejected after the bump -/
example : setField [5, 3, 2] ⟨2, 0⟩ (some 3) = ([6, 3, 2], ⟨6, 3⟩, false) := by decide
example : setField [6, 3, 2] ⟨6, 3⟩ (some 0) = ([7, 3, 2], ⟨6, 3⟩, true) := by decide
example : lastChangedRevision [6, 3, 2] 3 = 1 := by decide
example : fieldChangedAfter ⟨6, 0⟩ 5 = true ∧ fieldChangedAfter ⟨6, 0⟩ 6 = false := by decide

end SalsaVerif.Props.GenLogic.Runtime
