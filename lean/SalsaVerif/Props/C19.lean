/-
  C19 — waiters are always woken; waits are never cyclic.
  Model: SalsaVerif/Model/SyncDG.lean (one Lean function per Rust function of
  src/runtime/dependency_graph.rs, src/function/sync.rs and the block* functions of src/runtime.rs;
  every assert / unwrap / expect / non-terminating loop of the Rust code is an explicit `none`).

  All theorems are by induction over ARBITRARY finite op sequences from `init` (any number of threads
  and keys, no bounds).  Two step relations:
    `run`  / `Op`   atomic protocol steps (claim, peek, release, releaseSelf, transfer, wake);
    `grun` / `GOp`  the operations of `DependencyGraph` at lock-hold granularity (a Rust `release`
                    takes the graph mutex up to three times, so other threads' graph operations can
                    interleave; the `_graph` theorems cover every such interleaving).
  `runC` / `grunC` = the same with the client precondition `transferClientOk` checked at every transfer.

  PROVED IN FULL (every `Op` / `GOp`, transfers and re-entrant claims included)
    w2_acyclic, w2_acyclic_graph            no path from a thread to itself in `edges`
    w1_blocked_iff, w1_blocked_iff_graph    edge ⇔ member of exactly one dependents list, exactly once
    w5_exactly_once, w5_result_not_blocked_graph   result ⇒ not blocked; per-step thread life cycle
    w4_forest, w4_forest_graph              transferred is a forest, tdeps its inverse (hypothesis: the
                                            explicit client precondition `transferClientOk`; shown necessary)
    w6_transfer_wakes_owner                 transfer_lock wakes ≤ 1 thread, with Completed, and it is the new
                                            owner thread or a thread the new owner waits for
    w6_no_dependents_without_owner          (runC) with transfers: dependents ⇒ sync entry with anyone_waiting;
                                            no sync entry ⇒ no dependents; stale `Transferred` ⇒ no dependents
    w3_handback_wakes_waiters               (runC) `release_self` of a re-claimed transferred key whose transfer
                                            chain does NOT resolve to the releasing thread (salsa 451fce7, condition
                                            since e06010e) leaves NO dependents on it: all get `Completed`, none
                                            keeps an edge to the releasing thread
    w3_handback_own_target_accurate         (every state) `release_self` of a re-claimed transferred key whose chain
                                            resolves to the releasing thread (it owns the transfer target) wakes
                                            nobody and changes only the sync entry; every waiter whose edge satisfied
                                            the `claimed_twice` clause of W3 satisfies the `Transferred` clause after
    w3_retransfer_repoints                  (every reachable state) `transfer` of a re-claimed transferred key to the
                                            SAME owner key by a thread that is not the owner's thread (the
                                            `transferred` entry is unchanged — salsa's former "no-op" early return,
                                            repaired) hands the waiters over: it reports `changed`, `transferred` /
                                            `transferred_dependents` stay as they are and every remaining dependent of
                                            the key points at the owner's thread
    c19_depends_on_decides                  depends_on terminates and decides reachability
    c19_cycle_reported, c19_block_only_if_acyclic, c19_claim_enabled   (keys owned by a thread)
  PROVED FOR THE PROTOCOL WITHOUT `transfer` (`basicOps`; no key is ever `Transferred`)
    w3_points_at_owner_partial, w6_no_lost_wakeup_partial, c19_release_enabled_partial,
    c19_cycle_reported_partial (code-level form, holds in every state)

  NOT YET PROVED (nothing below is claimed; the decidable forms of W1, W2, W4, W5 are evaluated by the
  trace driver on every replayed state instead)
    * w3_points_at_owner (full): `t ∈ qdeps k → edges t = owner of k`, where the owner of a `Transferred`
      key is `threadIdOfTransferredQuery k` and, while a transferred key is re-claimed (`claimed_twice`),
      older dependents may still point at the chain's resolved owner.  The decidable form is `checkW3`
      (Model/SyncDG.lean); the trace driver evaluates it after every replayed graph operation: it held on
      all ≈ 75 000 graph lines of 3 360 recorded traces except exactly the recorded deadlock case of the
      pre-451fce7 `release_self` (corpus/DG/kf-stale-edge-prefix.ops), which it flags.  A proof needs an
      invariant tying sync table, `transferred` chains (with stale thread fields), the edge re-pointing
      of `update_transferred_edges` and the client `debug_assert`s of `transfer_lock` together; only the
      hand-back parts are proved (`release_self`: `w3_handback_wakes_waiters`,
      `w3_handback_own_target_accurate`; `transfer` to the unchanged owner: `w3_retransfer_repoints`).
      SECOND FINDING IN THIS GAP (repaired): `transfer_lock` returned early when the `transferred` entry was
      unchanged, also when the transferring thread had re-claimed the key from another thread's owner; waiters
      that blocked on the key meanwhile kept an edge to the re-claiming thread (`noopHandbackOps`: `checkW3`
      false after the transfer in the model of the old code; with the repair it is true).  On salsa the stale
      edge made a later `unblock_transfer_target` wake the wrong thread and `update_transferred_edges` trip
      "Circular reference between blocked edges" (release builds: the right thread waits for itself forever).
    * w6_no_lost_wakeup (full), delivery part: release of a transfer target delivers the result `r` to the
      dependents of every key transitively transferred to it.  Proved: those keys end with an empty
      dependents list (`w6_no_dependents_without_owner`) and every thread that left a list lost its edge
      and became ready (W1 + `w5_exactly_once`); not proved: that the result it received is `r`.
    * c19_cycle_reported for `Transferred` keys (answer `Cycle{inner}` / re-entrant `Claimed`, never an edge).
    * enabledness (no assert fires, loops terminate) of release/transfer in the presence of transfers:
      needs W4 + a key bound for the `transferred` walks (`resolveLoop`, `repointLoop`,
      `unblockRecursive`, `findBlockedThread`, `updateTransferredEdges` fuel), and that the
      `debug_assert`s of `transfer_lock` / `update_transferred_edges` hold — the latter are client
      obligations of the engine, not consequences of the graph code.
    * the non-atomicity of `release` at the protocol level (W3/W6 are stated for atomic `release`; the
      graph-level theorems do cover the interleavings).
-/
import SalsaVerif.Proofs.SyncDGReach
import SalsaVerif.Proofs.SyncDGWaiters2
import SalsaVerif.Proofs.SyncDGHandback
import SalsaVerif.Proofs.SyncDGRetransfer

namespace SalsaVerif.Props.C19
open SalsaVerif.Model.SyncDG SalsaVerif.Proofs.SyncDG

/-- A transfer-free trace with two Blocks, a Cycle answer, a release that wakes both waiters and
    both wake-ups; used by the non-vacuity examples below.
    t0 claims k1; t1 and t2 block on it; t0 re-claiming k1 is a cycle; t0 releases; t1, t2 wake. -/
def demoOps : List Op :=
  [.claim 0 1 false true, .claim 1 1 false true, .claim 2 1 true true, .claim 0 1 false true,
   .release 0 1 .completed, .wake 1, .wake 2]

/-- A trace with an ownership transfer (the scenario of corpus/DG/transfer.ops): t0 owns k1, t1 owns k2
    and blocks on k1; t0 claiming k2 is a cycle, so t0 transfers k1 to k2: t1 is woken with `Completed`
    and t0 blocks on k2; t1 re-claims k1 (claimed twice), releases it to `Transferred` again; t2 blocks
    on k1 (resolved owner t1); t1 releases k2, which wakes t0 (dependent of k2) and t2 (dependent of the
    transferred k1); t2 then finds k1 `Released` and claims it. -/
def transferOps : List Op :=
  [.claim 0 1 true true, .claim 1 2 true true, .claim 1 1 true true, .claim 0 2 true true,
   .transfer 0 1 2, .wake 1, .claim 1 1 true true, .releaseSelf 1 1, .claim 2 1 true true,
   .release 1 2 .completed, .wake 0, .wake 2, .claim 2 1 true true, .release 2 1 .completed]

/-- A trace in which a thread re-claims a transferred key whose transfer target is owned by ANOTHER thread
    (possible because that thread is blocked on it): t0 owns k3; t1 owns k2 and k1 and transfers k1 to k2
    (same thread: nobody is woken), then blocks on k3 (edge t1 → t0); t0 re-claims k1 (`block_transferred`
    resolves k1 to t1, which waits for t0: "I'm the owner", `claimed_twice`); t2 blocks on k1 (edge t2 → t0);
    t0 hands k1 back (`release_self`): the chain of k1 resolves to t1 ≠ t0, so t2 is woken. -/
def handbackOps : List Op :=
  [.claim 0 3 true true, .claim 1 2 true true, .claim 1 1 true true, .transfer 1 1 2,
   .claim 1 3 true true, .claim 0 1 true true, .claim 2 1 true true, .releaseSelf 0 1]

/-- The history of the second W3 finding (corpus/DG/noop-retransfer.ops): t0 owns k3, t2 owns k4, t1 owns k2
    and k1 and transfers k1 to k2 (same thread), then blocks on k3 (edge t1 → t0); t0 re-claims k1 (its
    resolved owner t1 waits for t0); t2 blocks on k1 (edge t2 → t0); t0 hands k1 back with
    `transfer k1 → k2`: the `transferred` entry `(t1, k2)` is unchanged.  Old code: early return, t2 keeps
    its edge to t0 although k1 resolves to t1 again.  Then t0 transfers k3 to k2 and blocks on t1; t1 meets
    k4 (a cycle through t2 → t0 → t1) and transfers k2 to k4 (t2): old code wakes t0 (t2 "depends on" it
    through the stale edge) instead of t2 and the re-pointing of t2's edge at t2 trips the
    circular-reference `debug_assert` (the step is not enabled).  Repaired code: the first transfer re-points
    t2 at t1, the second wakes t2. -/
def noopHandbackOps : List Op :=
  [.claim 0 3 true true, .claim 1 2 true true, .claim 2 4 true true, .claim 1 1 true true, .transfer 1 1 2,
   .claim 1 3 true true, .claim 0 1 true true, .claim 2 1 true true, .transfer 0 1 2,
   .claim 0 2 true true, .transfer 0 3 2, .wake 1, .claim 1 4 true true, .transfer 1 2 4]

/-! ### W2 — waits are never cyclic (full: every `Op`, including transfers) -/

theorem w2_acyclic (ops : List Op) (s : State) (h : run init ops = some s) :
    ∀ t, ¬ Path s.edges t t :=
  (reach_full h).acyclic

/-- The same for arbitrary sequences of graph operations at lock-hold granularity (`GOp`), i.e. for
    every interleaving of the (non-atomic) releases of different threads. -/
theorem w2_acyclic_graph (ops : List GOp) (s : State) (h : grun init ops = some s) :
    ∀ t, ¬ Path s.edges t t :=
  (greach_full h).acyclic

example : basicOps demoOps = true ∧ (run init demoOps).isSome = true := by decide
example : ((run init (demoOps.take 3)).map fun s => (s.edges 1, s.edges 2, s.qdeps 1)) =
      some (some 0, some 0, [1, 2]) := by decide
example : (run init transferOps).isSome = true := by decide
-- after the transfer: t1 has its result, t0 is blocked on t1 via k2, k1 is transferred to k2
example : ((run init (transferOps.take 5)).map fun s => (s.edges 0, s.edges 1, s.results 1)) =
      some (some 1, none, some .completed) ∧
    ((run init (transferOps.take 5)).map fun s => (s.qdeps 2, s.transferred 1, s.tdeps 2)) =
      some ([0], some (1, 2), some [1]) := by decide
-- a graph-level trace: two blocks, a transfer_lock that wakes the new owner, a release in two lock holds
example : ((grun init [.addEdge 1 1 0, .addEdge 2 1 0, .transferLock 1 0 2 (.thread 1), .addEdge 0 2 1,
    .wake 1, .unblockOn 2 .completed, .unblockTransferred 2 .completed]).map fun s =>
    (s.edges 0, s.edges 2, s.results 0, s.results 2)) =
    some (none, none, some .completed, some .completed) := by decide

/-! ### W1 — a thread has an outgoing edge iff it occurs in exactly one `qdeps` list (once) -/

theorem w1_blocked_iff (ops : List Op) (s : State) (h : run init ops = some s) (t : Nat) :
    ((s.edges t).isSome ↔ ∃ k, t ∈ s.qdeps k) ∧
    (∀ k k', t ∈ s.qdeps k → t ∈ s.qdeps k' → k = k') ∧
    (∀ k, (s.qdeps k).count t ≤ 1) :=
  w1_of_ginv (reach_full h) t

theorem w1_blocked_iff_graph (ops : List GOp) (s : State) (h : grun init ops = some s) (t : Nat) :
    ((s.edges t).isSome ↔ ∃ k, t ∈ s.qdeps k) ∧
    (∀ k k', t ∈ s.qdeps k → t ∈ s.qdeps k' → k = k') ∧
    (∀ k, (s.qdeps k).count t ≤ 1) :=
  w1_of_ginv (greach_full h) t

example : ((run init (demoOps.take 3)).map fun s => ((s.edges 1).isSome, (s.qdeps 1).count 1)) =
    some (true, 1) := by decide
example : ((run init (transferOps.take 9)).map fun s => ((s.edges 2).isSome, (s.qdeps 1).count 2)) =
    some (true, 1) := by decide

/-! ### W3 — every dependent of `k` points at the thread that owns `k` -/

-- full statement: `t ∈ s.qdeps k → s.edges t = some (resolvedOwner s k)`, where the resolved owner of a
-- `Transferred` key is the thread found by `threadIdOfTransferredQuery` (the thread stored in a
-- `transferred` entry may be stale), for arbitrary `Op` sequences.
theorem w3_points_at_owner_partial (ops : List Op) (s : State) (hb : basicOps ops = true)
    (h : run init ops = some s) (t k : Nat) (ht : t ∈ s.qdeps k) :
    ∃ st u, s.sync k = some st ∧ st.owner = .thread u ∧ st.anyoneWaiting = true ∧
      s.edges t = some u :=
  (reach_basic hb h).w3 t k ht

example : ((run init (demoOps.take 3)).map fun s =>
    ((s.sync 1).map (·.owner), (s.sync 1).map (·.anyoneWaiting), s.edges 2)) =
    some (some (.thread 0), some true, some 0) := by decide

/-! ### W4 — `transferred` is a forest and `transferred_dependents` is its inverse (= c18_forest) -/

/-- For every op sequence in which each `transfer k → n` satisfies the CLIENT precondition
    `transferClientOk` (`n ≠ k`, and if `k` has no `transferred` entry then `n`'s lock is not already
    transitively owned by `k`; `runC` checks it before each step).  The Rust code does not assert this
    precondition — the engine guarantees it (a lock is only transferred to a cycle head that is still
    active further up the stack) — and without it the invariant is false, see the example below.  The
    trace driver evaluates the same predicate on every replayed `transfer_lock`.
    `Forest`: `transferred k = (t,o) → k ∈ tdeps o`, `k ∈ tdeps o → transferred k = (_,o)`,
    every `tdeps` list duplicate-free, and no key transitively owns itself. -/
theorem w4_forest (ops : List Op) (s : State) (h : runC init ops = some s) : Forest s :=
  (runC_forest ops init s GInv_init Forest_init h).2

/-- The same for graph-operation sequences at lock-hold granularity. -/
theorem w4_forest_graph (ops : List GOp) (s : State) (h : grunC init ops = some s) : Forest s :=
  (grunC_forest ops init s GInv_init Forest_init h).2

example : (runC init transferOps).isSome = true := by decide
example : ((runC init (transferOps.take 9)).map fun s => (s.transferred 1, s.tdeps 2, checkW4 s)) =
    some (some (1, 2), some [1], true) := by decide
-- the re-pointing loop at work (graph level): 3 → 1 → 2, then transferring 2 → 3 re-points 1 → (old owner of 2 = 4)
example : ((grunC init [.transferLock 2 0 4 (.thread 0), .transferLock 1 0 2 (.thread 0),
    .transferLock 3 0 1 (.thread 0), .transferLock 2 0 3 (.thread 0)]).map fun s =>
    (s.transferred 1, s.transferred 2, s.transferred 3, checkW4 s)) =
    some (some (0, 4), some (0, 3), some (0, 1), true) := by decide
-- the client precondition is necessary: every Rust assert passes (`run` succeeds) on
-- "t0 claims k1 and k2, transfers k2 → k1, then k1 → k2", and the result is a cycle k1 ↔ k2.
example : ((run init [.claim 0 1 true true, .claim 0 2 true true, .transfer 0 2 1, .transfer 0 1 2]).map
    fun s => (s.transferred 1, s.transferred 2, checkW4 s)) =
    some (some (0, 2), some (0, 1), false) := by decide
example : (runC init [.claim 0 1 true true, .claim 0 2 true true, .transfer 0 2 1, .transfer 0 1 2]).isSome
    = false := by decide

/-! ### W5 — every Block is answered by exactly one result (full: every `Op`, including transfers) -/

/-- (a) a thread with an unconsumed result is not blocked; (b) in every step each thread either keeps
    its status and result (a blocked thread's edge may be re-pointed by a transfer), or goes
    idle → blocked by its own (non-wake) step, or blocked → ready (a result is delivered — exactly one,
    because ready → ready keeps the result), or ready → idle by its own `wake`.  Nothing else: no
    blocked → idle (an edge dropped without a result), no ready → blocked, no overwritten result. -/
theorem w5_exactly_once (ops : List Op) (s : State) (h : run init ops = some s) :
    (∀ t, (s.results t).isSome → s.edges t = none) ∧
    (∀ op s', step s op = some s' → Lifecycle s s' op) := by
  have hp := reach_full h
  exact ⟨hp.w5, fun op s' hs => (step_full hp hs).2⟩

/-- State part for arbitrary graph-operation sequences (lock-hold granularity). -/
theorem w5_result_not_blocked_graph (ops : List GOp) (s : State) (h : grun init ops = some s) :
    ∀ t, (s.results t).isSome → s.edges t = none :=
  (greach_full h).w5

example : ((run init (demoOps.take 5)).map fun s => (s.results 1, s.results 2, s.edges 1, s.edges 2)) =
    some (some .completed, some .completed, none, none) := by decide
example : ((run init demoOps).map fun s => (status s 0, status s 1, status s 2)) =
    some (.idle, .idle, .idle) := by decide
-- the transfer step itself: t1 blocked → ready, t0 idle → blocked (by its own step)
example : ((run init (transferOps.take 4)).map fun s => (status s 0, status s 1)) =
      some (.idle, .blocked) ∧
    ((run init (transferOps.take 5)).map fun s => (status s 0, status s 1)) =
      some (.blocked, .ready) := by decide

/-! ### W6 — no lost wake-up -/

-- full statement: for arbitrary `Op` sequences: (a) as below; additionally a key whose sync entry is a
-- stale `Transferred` (no `transferred` entry) has no dependents; (b) as below, where for a transfer
-- target the dependents of all keys transitively transferred to `k` get `r` as well; (c) `transfer`
-- delivers `Completed` to exactly the one thread that becomes the owner.
/-- (a) a key without sync entry has no dependents; (b) when `release` (guard drop in Default mode with
    `Completed`, `release_panicking` with `Panicked`/`Cancelled`) or `releaseSelf` removes the entry of
    `k`, the dependents list of `k` is empty afterwards and every former dependent has received exactly
    that result and lost its edge. -/
theorem w6_no_lost_wakeup_partial (ops : List Op) (s : State) (hb : basicOps ops = true)
    (h : run init ops = some s) :
    (∀ k, s.sync k = none → s.qdeps k = []) ∧
    (∀ t k r s', step s (.release t k r) = some s' →
      s'.sync k = none ∧ s'.qdeps k = [] ∧
      ∀ u, u ∈ s.qdeps k → s'.results u = some r ∧ s'.edges u = none) ∧
    (∀ t k s', step s (.releaseSelf t k) = some s' →
      s'.sync k = none ∧ s'.qdeps k = [] ∧
      ∀ u, u ∈ s.qdeps k → s'.results u = some .completed ∧ s'.edges u = none) := by
  have hp := reach_basic hb h
  refine ⟨hp.w6, ?_, ?_⟩
  · intro t k r s' hs
    have h0 := PInvB_touch k (PInvB_touch t hp)
    obtain ⟨_, h1, h2, h3, _⟩ := releaseEntry_basic h0 (step_release hs)
    exact ⟨h1, h2, h3⟩
  · intro t k s' hs
    have h0 := PInvB_touch k (PInvB_touch t hp)
    obtain ⟨_, h1, h2, h3, _⟩ := releaseEntry_basic h0 (releaseSelf_basic h0 (step_releaseSelf hs))
    exact ⟨h1, h2, h3⟩

/-- The internal `.expect("not blocked")` of `unblock_runtime` cannot fire: a release by the owner
    is always enabled. -/
theorem c19_release_enabled_partial (ops : List Op) (s : State) (hb : basicOps ops = true)
    (h : run init ops = some s) (t k : Nat) (r : WaitResult) (hi : idle s t = true)
    (ho : ownedBy s k t = true) : (step s (.release t k r)).isSome = true := by
  have hp := PInvB_touch k (PInvB_touch t (reach_basic hb h))
  have hi' : idle (touch (touch s t) k) t = true := hi
  have ho' : ownedBy (touch (touch s t) k) k t = true := ho
  simp only [step, stepA, hi', ho', Bool.and_self, if_true, Option.map_map, Option.isSome_map]
  generalize touch (touch s t) k = s0 at hp ho'
  obtain ⟨st, hk, _⟩ := ownedBy_iff.mp ho'
  obtain ⟨_, hc2, htt⟩ := hp.owner k st hk
  simp only [releaseEntry, hk, release, hc2, htt]
  cases st.anyoneWaiting with
  | false => simp
  | true =>
    have hg0 : GInv { s0 with sync := upd s0.sync k none } [] := GInv.congr (s := s0) rfl rfl rfl hp.g
    obtain ⟨s2, h2⟩ := unblockRuntimesBlockedOn_enabled k r hg0
    simp [h2]

example : ((run init (demoOps.take 4)).map fun s => s.qdeps 1) = some [1, 2] ∧
    ((run init (demoOps.take 4 ++ [.release 0 1 .panicked])).map fun s' =>
      ((s'.sync 1).isSome, s'.qdeps 1, s'.results 1, s'.results 2)) =
    some (false, [], some .panicked, some .panicked) := by decide

/-- W6, transfer part (holds in every state; `transferLockCore` = `transfer_lock` up to its own final
    `block_on`): the transfer wakes at most one thread; it receives `Completed`; and it is the thread
    `nt` that becomes the owner or a thread that `nt` transitively waits for. -/
theorem w6_transfer_wakes_owner (s s' : State) (q c n nt : Nat) (o : SyncOwner) (kind : TransferKind)
    (h : transferLockCore s q c n o = some (s', kind, nt)) :
    (∀ x, status s x = .blocked → status s' x = .ready →
      s'.results x = some .completed ∧ (x = nt ∨ Path s.edges nt x)) ∧
    (∀ x y, status s x = .blocked → status s' x = .ready →
      status s y = .blocked → status s' y = .ready → x = y) :=
  ⟨(transferLockCore_wakes h).completed, (transferLockCore_wakes h).unique⟩

-- t1 (blocked on k1, owner of the transfer target k2) is the one thread woken by the transfer
example : ((run init (transferOps.take 4)).bind fun s =>
    (transferLockCore s 1 0 2 (.thread 1)).map fun r => (r.2.2, status s 1, status r.1 1, r.1.results 1)) =
    some (1, .blocked, .ready, some .completed) := by decide

/-! ### W6 / W3 with transfers (runs satisfying the client precondition, `runC`) -/

/-- W6, state part, WITH transfers: (a) a key with dependents has a sync entry whose `anyone_waiting`
    flag is set — so `release` never skips its wake-ups; (b) a key without sync entry has no dependents;
    (c) a key left in the `Transferred` state whose `transferred` entry is gone (its owner released it:
    the "stale Transferred" state that the next `try_claim` overwrites) has no dependents. -/
theorem w6_no_dependents_without_owner (ops : List Op) (s : State) (h : runC init ops = some s) :
    (∀ k, s.qdeps k ≠ [] → ∃ st, s.sync k = some st ∧ st.anyoneWaiting = true) ∧
    (∀ k, s.sync k = none → s.qdeps k = []) ∧
    (∀ k st, s.sync k = some st → st.owner = .transferred → s.transferred k = none → s.qdeps k = []) := by
  have hq := runC_qinv ops init s GInv_init Forest_init QInv_init h
  exact ⟨hq.aw, fun k hk => hq.sync_none hk, hq.stale⟩

/-- W3, hand-back part (salsa 451fce7; condition since e06010e): when thread `t` gives a re-claimed
    transferred key `k` (`claimed_twice`) back to its transfer target (`release_self`) and the transfer
    chain of `k` does NOT resolve to `t` (the target is owned by another thread, which is blocked on `t`),
    the key is `Transferred` again and has NO dependents afterwards: every thread that was waiting on it —
    in particular every thread whose edge pointed at `t` — has received `Completed` and lost its edge, so
    no stale edge to the releasing thread survives (the cause of the deadlock recorded in corpus/C18).
    (Before e06010e the model woke unconditionally and this theorem had no `hno`; with `hno` dropped it
    is false now: see `w3_handback_own_target_accurate` and the example below it.) -/
theorem w3_handback_wakes_waiters (ops : List Op) (s : State) (h : runC init ops = some s)
    (t k : Nat) (st : SyncState) (hk : s.sync k = some st) (hct : st.claimedTwice = true)
    (hno : resolvedOwner s k ≠ some t) (s' : State)
    (hs : step s (.releaseSelf t k) = some s') :
    s'.qdeps k = [] ∧
    (∃ st', s'.sync k = some st' ∧ st'.owner = .transferred ∧ st'.anyoneWaiting = false) ∧
    (∀ u, u ∈ s.qdeps k → s'.results u = some .completed ∧ s'.edges u = none) ∧
    (∀ k' u, u ∈ s'.qdeps k' → s'.edges u = some t → k' ≠ k) := by
  have hq := runC_qinv ops init s GInv_init Forest_init QInv_init h
  have hr := runC_run ops init s h
  have hg := reach_full hr
  have hkv : KInv s := run_kinv ops init s GInv_init KInv_init hr
  have hno' : threadIdOfTransferredQuery (touch (touch s t) k) k none ≠ some (some t) := by
    rw [threadIdOfTransferredQuery_touch2 (w4_forest ops s h) hkv t k]
    exact fun e => hno (resolvedOwner_eq_some.mpr e)
  obtain ⟨h1, h2, h3⟩ := releaseSelf_handback (s0 := touch (touch s t) k)
    (GInv_touch k (GInv_touch t hg)) (hq.congr rfl rfl rfl) hk hct (step_releaseSelf hs) hno'
  refine ⟨h1, ⟨_, h2, rfl, rfl⟩, h3, ?_⟩
  intro k' u hu _ hkk
  subst hkk
  rw [h1] at hu; simp at hu

-- t0 re-claimed k1 (transferred to k2, owned by t1 which waits for t0); t2 blocks on k1 (edge t2 → t0);
-- the chain of k1 resolves to t1 ≠ t0, so the hand-back by t0 wakes t2 and clears `anyone_waiting`
example : (runC init handbackOps).isSome = true := by decide
example : ((runC init (handbackOps.take 7)).map fun s =>
      (s.edges 2, s.qdeps 1, (s.sync 1).map (·.claimedTwice), resolvedOwner s 1, s.edges 1)) =
      some (some 0, [2], some true, some 1, some 0) := by decide
example : ((runC init handbackOps).map fun s =>
      (s.edges 2, s.results 2, s.qdeps 1, (s.sync 1).map (·.owner))) =
      some (none, some .completed, [], some .transferred) := by decide
example : ((runC init handbackOps).map fun s => ((s.sync 1).map (·.anyoneWaiting), checkW3 s [])) =
      some (some false, true) := by decide

/-- W3, hand-back by `transfer` to the unchanged owner (the repaired "no-op" arm of `transfer_lock`): in every
    reachable state, if key `q` already has the `transferred` entry `(nt, n)`, `nt` is the thread the new
    owner `n` resolves to and the transferring thread `c` is another thread (it had re-claimed `q`), then
    `transfer_lock` reports `changed`, does not touch `transferred` / `transferred_dependents`, and every
    thread that is still a dependent of `q` afterwards has its edge pointing at `nt`. -/
theorem w3_retransfer_repoints (ops : List Op) (s s' : State) (hr : run init ops = some s)
    (q c n nt nt' : Nat) (o : SyncOwner) (kind : TransferKind)
    (hres : newOwnerThread s q n o = some nt) (hentry : s.transferred q = some (nt, n)) (hcn : c ≠ nt)
    (h : transferLockCore s q c n o = some (s', kind, nt')) :
    nt' = nt ∧ kind = .changed ∧ s'.transferred = s.transferred ∧ s'.tdeps = s.tdeps ∧
    ∀ t, t ∈ s'.qdeps q → s'.edges t = some nt :=
  transferLockCore_same_owner_repoints (reach_full hr) hres hentry hcn h

-- non-vacuity / regression: before the hand-back t2's edge points at the re-claiming thread t0 …
example : ((runC init (noopHandbackOps.take 8)).map fun s =>
      (s.edges 2, s.qdeps 1, (s.sync 1).map (·.claimedTwice), resolvedOwner s 1, checkW3 s [])) =
      some (some 0, [2], some true, some 1, true) := by decide
-- … the same-owner transfer by t0 re-points it at the owner's thread t1 (old code: edge stays t0, W3 false) …
example : ((runC init (noopHandbackOps.take 9)).map fun s =>
      (s.edges 2, s.qdeps 1, (s.sync 1).map (·.owner), (s.transferred 1).map (·.2), checkW3 s [])) =
      some (some 1, [2], some .transferred, some 2, true) := by decide
-- … and the later transfer of k2 to t2's k4 is enabled and wakes t2 (old code: not enabled, `debug_assert`)
example : ((runC init noopHandbackOps).map fun s =>
      (s.results 2, s.edges 2, s.edges 0, s.edges 1, checkW3 s [])) =
      some (some .completed, none, some 2, some 2, true) := by decide

/-- W3, hand-back part, own target (salsa e06010e) — WHY the waiters need not (and must not) be woken
    when the releasing thread owns the transfer target.  Holds in EVERY state: if the transfer chain of
    the re-claimed key `k` resolves to the releasing thread `t`, `release_self` wakes nobody and changes
    nothing but the sync entry of `k` (`Transferred`, `claimed_twice` cleared, `anyone_waiting` KEPT, so
    the eventual release of the target still wakes the waiters); `k` keeps its `transferred` entry and
    still resolves to `t`; hence every waiter `u` of `k` whose edge satisfied the `claimed_twice` clause of
    W3 before (it points at the owner `t`, or at the chain's resolved owner) satisfies the `Transferred`
    clause after: its edge points at the resolved owner.  No waiter leaves the wait-for graph. -/
theorem w3_handback_own_target_accurate (s : State) (t k : Nat) (st : SyncState)
    (hk : s.sync k = some st) (hct : st.claimedTwice = true) (hown : resolvedOwner s k = some t)
    (s' : State) (hs : step s (.releaseSelf t k) = some s') :
    s'.edges = s.edges ∧ s'.qdeps = s.qdeps ∧ s'.results = s.results ∧
    s'.transferred = s.transferred ∧ s'.tdeps = s.tdeps ∧
    s'.sync k = some { st with claimedTwice := false, owner := .transferred } ∧
    (∀ k', k' ≠ k → s'.sync k' = s.sync k') ∧
    (s'.transferred k).isSome ∧ resolvedOwner s' k = some t ∧
    (∀ u, u ∈ s'.qdeps k → (s.edges u = some t ∨ s.edges u = resolvedOwner s k) →
      s'.edges u = resolvedOwner s' k) := by
  have hb : s.bound ≤ (touch (touch s t) k).bound :=
    Nat.le_trans (touch_bound_le s t).1 (touch_bound_le _ k).1
  have hown0 : resolvedOwner (touch (touch s t) k) k = some t := resolvedOwner_mono (s := s) rfl hb hown
  obtain ⟨e1, e2, e3, e4, e5, e6, e7, e8, e9⟩ := releaseSelf_handback_own_accurate
    (s0 := touch (touch s t) k) hk hct (step_releaseSelf hs) hown0
  refine ⟨e1, e2, e3, e4, e5, e6, e7, e8, e9, ?_⟩
  intro u _ hu
  rw [e9, e1]
  show s.edges u = some t
  rcases hu with hu | hu
  · exact hu
  · rw [hu, hown]

-- t2 blocks on the re-claimed key k1 (edge t2 → t1); t1 owns the transfer target k2, so the hand-back by
-- t1 leaves t2 blocked with an accurate edge (k1 resolves to t1) and keeps `anyone_waiting`; the release
-- of k2 by t1 then wakes t2 through the transferred key
example : ((runC init (transferOps.take 7 ++ [.claim 2 1 true true])).map fun s =>
      (s.edges 2, s.qdeps 1, (s.sync 1).map (·.claimedTwice), resolvedOwner s 1)) =
      some (some 1, [2], some true, some 1) := by decide
example : ((runC init (transferOps.take 7 ++ [.claim 2 1 true true, .releaseSelf 1 1])).map fun s =>
      (s.edges 2, s.results 2, s.qdeps 1, (s.sync 1).map (·.owner))) =
      some (some 1, none, [2], some .transferred) := by decide
example : ((runC init (transferOps.take 7 ++ [.claim 2 1 true true, .releaseSelf 1 1])).map fun s =>
      ((s.sync 1).map (·.anyoneWaiting), resolvedOwner s 1, checkW3 s [])) =
      some (some true, some 1, true) := by decide
example : ((runC init (transferOps.take 7 ++ [.claim 2 1 true true, .releaseSelf 1 1, .release 1 2 .completed])).map
      fun s => (s.edges 2, s.results 2, s.qdeps 1)) = some (none, some .completed, []) := by decide
-- after the owner released the transfer target, the transferred key k1 is stale and has no dependents
example : ((runC init (transferOps.take 10)).map fun s =>
    ((s.sync 1).map (·.owner), s.transferred 1, s.qdeps 1)) = some (some .transferred, none, []) := by
  decide

/-! ### c19_cycle_reported — a claim that would close a wait cycle is answered `Cycle`, no edge added -/

-- full statement: for arbitrary `Op` sequences, with `other` the resolved owner of `k`; for a
-- `Transferred` key the answer is `Cycle { inner: true }` under `Reentrancy::Deny` and a re-entrant
-- `Claimed` under `Allow`; never `Running`, and no edge is added.
/-- Holds in EVERY state (reachable or not): it is a property of the code of `try_claim`/`block` alone.
    `_partial` because the key is owned by a thread (`SyncOwner::Thread`), not `Transferred`. -/
theorem c19_cycle_reported_partial (s : State) (me other k : Nat) (re blk : Bool) (st : SyncState)
    (hk : s.sync k = some st) (ho : st.owner = .thread other) (hi : idle s me = true)
    (hdep : other = me ∨ dependsOn s other me = some true) :
    ∃ s', stepA s (.claim me k re blk) = some (s', .claim (.cycle false) false) ∧
      s'.edges = s.edges ∧ s'.qdeps = s.qdeps ∧ s'.results = s.results := by
  have hi' : idle (touch (touch s me) k) me = true := hi
  have hk' : (touch (touch s me) k).sync k = some st := hk
  have hdep' : other = me ∨ dependsOn (touch (touch s me) k) other me = some true := by
    rcases hdep with hd | hd
    · exact Or.inl hd
    · refine Or.inr ?_
      unfold dependsOn at hd ⊢
      have hle : s.bound + 1 ≤ (touch (touch s me) k).bound + 1 := by
        simp only [touch]; omega
      obtain ⟨m, hm⟩ := Nat.le.dest hle
      rw [← hm]
      exact dependsOnLoop_fuel_mono _ m _ hd
  refine ⟨setWaiting (touch (touch s me) k) k st, ?_, rfl, rfl, rfl⟩
  simp only [stepA, hi', if_true, tryClaim, hk', ho]
  have hb : block (setWaiting (touch (touch s me) k) k st) me other = some (.cycle false) := by
    unfold block
    rcases hdep' with hd | hd
    · simp [hd]
    · by_cases hm : me = other
      · simp [hm]
      · have : dependsOn (setWaiting (touch (touch s me) k) k st) other me = some true := hd
        simp [hm, this]
  simp [hb, finishClaim]

example : ((run init (demoOps.take 3)).map fun s =>
    ((stepA s (.claim 0 1 false true)).map (·.2), dependsOn s 0 0)) =
    some (some (.claim (.cycle false) false), some true) := by decide

/-! ### `depends_on` terminates and decides reachability in every reachable state -/

/-- The `while let` loop of `Edges::depends_on` always terminates in a reachable state (never `none`),
    and it answers `true` exactly when `a` is transitively blocked on `b` (or `a = b` and `a` is not
    blocked — the loop's final `p == to_id`).  Full: every `Op`, including transfers. -/
theorem c19_depends_on_decides (ops : List Op) (s : State) (h : run init ops = some s) (a b : Nat) :
    dependsOn s a b ≠ none ∧
    (dependsOn s a b = some true ↔ (Path s.edges a b ∨ (a = b ∧ s.edges a = none))) := by
  obtain ⟨hg, hb⟩ := reach_binv h
  exact ⟨dependsOn_terminates hg hb a b, (dependsOn_complete hg hb a b).1⟩

example : ((run init (transferOps.take 9)).map fun s => (dependsOn s 2 1, dependsOn s 0 1, dependsOn s 1 0)) =
    some (some true, some true, some false) := by decide

/-- c19_cycle_reported, specification form: in every reachable state (any ops, including transfers),
    if key `k` is owned by thread `other` and `other` is `me` or transitively waits for `me`, then
    `try_claim` by `me` answers `Cycle` and changes neither edges, dependents nor results.
    (`Transferred` owners: see the NOT YET PROVED list.) -/
theorem c19_cycle_reported (ops : List Op) (s : State) (h : run init ops = some s)
    (me other k : Nat) (re blk : Bool) (st : SyncState)
    (hk : s.sync k = some st) (ho : st.owner = .thread other) (hi : idle s me = true)
    (hdep : other = me ∨ Path s.edges other me) :
    ∃ s', stepA s (.claim me k re blk) = some (s', .claim (.cycle false) false) ∧
      s'.edges = s.edges ∧ s'.qdeps = s.qdeps ∧ s'.results = s.results := by
  apply c19_cycle_reported_partial s me other k re blk st hk ho hi
  rcases hdep with hd | hd
  · exact Or.inl hd
  · exact Or.inr ((c19_depends_on_decides ops s h other me).2.mpr (Or.inl hd))

/-- Conversely a claim never blocks into a cycle: when it answers `Running` and blocks, the owner was
    not waiting for the caller (this is what keeps W2). -/
theorem c19_block_only_if_acyclic (ops : List Op) (s : State) (h : run init ops = some s)
    (me k o : Nat) (re : Bool) (s' : State)
    (hs : stepA s (.claim me k re true) = some (s', .claim (.running o) true)) :
    me ≠ o ∧ ¬ Path s.edges o me ∧ s'.edges = upd s.edges me (some o) := by
  obtain ⟨hg, _⟩ := reach_binv h
  simp only [stepA] at hs
  have h0 := GInv_touch k (GInv_touch me hg)
  have he0 : (touch (touch s me) k).edges = s.edges := rfl
  generalize touch (touch s me) k = s0 at hs h0 he0
  cases hi : idle s0 me with
  | false => simp [hi] at hs
  | true =>
    simp only [hi, if_true] at hs
    cases hc : tryClaim s0 me k re with
    | none => simp [hc] at hs
    | some p =>
      obtain ⟨s1, a⟩ := p
      simp only [hc] at hs
      have fr := tryClaim_frame hc
      cases a with
      | claimed => simp [finishClaim] at hs
      | cycle i => simp [finishClaim] at hs
      | running o' =>
        simp only [finishClaim, if_true] at hs
        cases ha : addEdge s1 me k o' with
        | none => simp [ha] at hs
        | some s2 =>
          simp only [ha, Option.some.injEq, Prod.mk.injEq, Answer.claim.injEq, ClaimAnswer.running.injEq] at hs
          obtain ⟨rfl, ⟨rfl, _⟩⟩ := hs
          obtain ⟨hne, _, hd, rfl⟩ := addEdge_eq ha
          have := dependsOnLoop_false _ _ hd
          rw [fr.only.edges, he0] at this
          refine ⟨hne, this.1, ?_⟩
          simp only
          rw [fr.only.edges, he0]

example : ((run init (demoOps.take 1)).map fun s => (stepA s (.claim 1 1 false true)).map (·.2)) =
    some (some (.claim (.running 0) true)) := by decide

/-- No internal assert, unwrap or non-terminating loop can fire in a claim of a key that is vacant or
    owned by a thread: the step is always enabled for an idle thread (any reachable state, any ops). -/
theorem c19_claim_enabled (ops : List Op) (s : State) (h : run init ops = some s)
    (t k : Nat) (re blk : Bool) (hi : idle s t = true)
    (hk : s.sync k = none ∨ ∃ st u, s.sync k = some st ∧ st.owner = .thread u) :
    (step s (.claim t k re blk)).isSome = true := by
  obtain ⟨hg, hb⟩ := reach_binv h
  have hi0 : idle (touch (touch s t) k) t = true := hi
  simp only [step, stepA, hi0, if_true, Option.isSome_map]
  rcases hk with hk | ⟨st, u, hk, ho⟩
  · have hk0 : (touch (touch s t) k).sync k = none := hk
    simp [tryClaim, hk0, finishClaim]
  · have hk0 : (touch (touch s t) k).sync k = some st := hk
    simp only [tryClaim, hk0, ho]
    have hg1 : GInv (setWaiting (touch (touch s t) k) k st) [] :=
      GInv.congr (s := s) rfl rfl rfl hg
    have hb1 : BInv (setWaiting (touch (touch s t) k) k st) := by
      intro x hx
      have := hb x hx
      simp only [setWaiting, touch]; omega
    have het : (setWaiting (touch (touch s t) k) k st).edges t = none := (idle_iff.mp hi).1
    generalize setWaiting (touch (touch s t) k) k st = s1 at hg1 hb1 het
    unfold block
    by_cases htu : t = u
    · simp [htu, finishClaim]
    · simp only [htu, if_false]
      have hterm := dependsOn_terminates hg1 hb1 u t
      cases hd : dependsOn s1 u t with
      | none => exact absurd hd hterm
      | some b =>
        cases b with
        | true => simp [finishClaim]
        | false =>
          cases blk with
          | false => simp [finishClaim]
          | true => simp [finishClaim, addEdge, htu, het, hd]

example : ((run init (demoOps.take 2)).map fun s => (idle s 2, (step s (.claim 2 1 true true)).isSome)) =
    some (true, true) := by decide

end SalsaVerif.Props.C19
