/-
  C19 — waiters are always woken; waits are never cyclic.
  Model: SalsaVerif/Model/SyncDG.lean (one Lean function per Rust function of
  src/runtime/dependency_graph.rs, src/function/sync.rs and the block* functions of src/runtime.rs).

  All theorems are by induction over ARBITRARY finite op sequences from `init` (any number of threads
  and keys, no bounds).  `_partial` = proved for op sequences without ownership transfer
  (`basicOps`: every constructor of `Op` except `transfer`; without a `transfer` no key ever is in the
  `Transferred` state, so re-entrant claims do not occur either).

  NOT YET PROVED (kept out of this file; see the full statements in the comments below)
    (filled in at the end of this file's history — see the list at the bottom of this comment)
-/
import SalsaVerif.Proofs.SyncDGFull

namespace SalsaVerif.Props.C19
open SalsaVerif.Model.SyncDG SalsaVerif.Proofs.SyncDG

/-- Op sequences of the protocol without ownership transfer. -/
def basicOps (ops : List Op) : Bool := ops.all Op.isBasic

theorem reach_basic {ops : List Op} {s : State} (hb : basicOps ops = true)
    (h : run init ops = some s) : PInvB s := by
  refine run_basic ops init s PInvB_init ?_ h
  intro op hop
  exact List.all_eq_true.mp hb op hop

/-- A transfer-free trace with two Blocks, a Cycle answer, a release that wakes both waiters and
    both wake-ups; used by the non-vacuity examples below.
    t0 claims k1; t1 and t2 block on it; t0 re-claiming k1 is a cycle; t0 releases; t1, t2 wake. -/
def demoOps : List Op :=
  [.claim 0 1 false true, .claim 1 1 false true, .claim 2 1 true true, .claim 0 1 false true,
   .release 0 1 .completed, .wake 1, .wake 2]

/-- A trace with an ownership transfer (the scenario of corpus/DG/transfer.ops): t0 owns k1, t1 owns k2
    and blocks on k1; t0 claiming k2 is a cycle, so t0 transfers k1 to k2: t1 is woken with `Completed`
    and t0 blocks on k2; t1 re-claims k1 (claimed twice), releases it to `Transferred` again; t2 blocks
    on k1 (resolved owner t1); t1 releases k2, which wakes t0 (dependent of k2) and t2 (dependent of the
    transferred k1); t2 then finds k1 `Released` and claims it. -/
def transferOps : List Op :=
  [.claim 0 1 true true, .claim 1 2 true true, .claim 1 1 true true, .claim 0 2 true true,
   .transfer 0 1 2, .wake 1, .claim 1 1 true true, .releaseSelf 1 1, .claim 2 1 true true,
   .release 1 2 .completed, .wake 0, .wake 2, .claim 2 1 true true, .release 2 1 .completed]

theorem reach_full {ops : List Op} {s : State} (h : run init ops = some s) : GInv s [] :=
  run_full ops init s GInv_init h

theorem greach_full {ops : List GOp} {s : State} (h : grun init ops = some s) : GInv s [] :=
  grun_full ops init s GInv_init h

/-! ### W2 — waits are never cyclic (full: every `Op`, including transfers) -/

theorem w2_acyclic (ops : List Op) (s : State) (h : run init ops = some s) :
    ∀ t, ¬ Path s.edges t t :=
  (reach_full h).acyclic

/-- The same for arbitrary sequences of graph operations at lock-hold granularity (`GOp`), i.e. for
    every interleaving of the (non-atomic) releases of different threads. -/
theorem w2_acyclic_graph (ops : List GOp) (s : State) (h : grun init ops = some s) :
    ∀ t, ¬ Path s.edges t t :=
  (greach_full h).acyclic

example : basicOps demoOps = true ∧ (run init demoOps).isSome = true := by decide
example : ((run init (demoOps.take 3)).map fun s => (s.edges 1, s.edges 2, s.qdeps 1)) =
      some (some 0, some 0, [1, 2]) := by decide
example : (run init transferOps).isSome = true := by decide
-- after the transfer: t1 has its result, t0 is blocked on t1 via k2, k1 is transferred to k2
example : ((run init (transferOps.take 5)).map fun s => (s.edges 0, s.edges 1, s.results 1)) =
      some (some 1, none, some .completed) ∧
    ((run init (transferOps.take 5)).map fun s => (s.qdeps 2, s.transferred 1, s.tdeps 2)) =
      some ([0], some (1, 2), some [1]) := by decide
-- a graph-level trace: two blocks, a transfer_lock that wakes the new owner, a release in two lock holds
example : ((grun init [.addEdge 1 1 0, .addEdge 2 1 0, .transferLock 1 0 2 (.thread 1), .addEdge 0 2 1,
    .wake 1, .unblockOn 2 .completed, .unblockTransferred 2 .completed]).map fun s =>
    (s.edges 0, s.edges 2, s.results 0, s.results 2)) =
    some (none, none, some .completed, some .completed) := by decide

/-! ### W1 — a thread has an outgoing edge iff it occurs in exactly one `qdeps` list (once) -/

theorem w1_of_ginv {s : State} (hg : GInv s []) (t : Nat) :
    ((s.edges t).isSome ↔ ∃ k, t ∈ s.qdeps k) ∧
    (∀ k k', t ∈ s.qdeps k → t ∈ s.qdeps k' → k = k') ∧
    (∀ k, (s.qdeps k).count t ≤ 1) := by
  refine ⟨⟨fun he => ?_, fun ⟨k, hk⟩ => hg.mem_blocked t k hk⟩, hg.unique t, fun k => ?_⟩
  · rcases hg.blocked_mem t he with hk | hl
    · exact hk
    · simp at hl
  · exact List.nodup_iff_count.mp (hg.nodup k) t

theorem w1_blocked_iff (ops : List Op) (s : State) (h : run init ops = some s) (t : Nat) :
    ((s.edges t).isSome ↔ ∃ k, t ∈ s.qdeps k) ∧
    (∀ k k', t ∈ s.qdeps k → t ∈ s.qdeps k' → k = k') ∧
    (∀ k, (s.qdeps k).count t ≤ 1) :=
  w1_of_ginv (reach_full h) t

theorem w1_blocked_iff_graph (ops : List GOp) (s : State) (h : grun init ops = some s) (t : Nat) :
    ((s.edges t).isSome ↔ ∃ k, t ∈ s.qdeps k) ∧
    (∀ k k', t ∈ s.qdeps k → t ∈ s.qdeps k' → k = k') ∧
    (∀ k, (s.qdeps k).count t ≤ 1) :=
  w1_of_ginv (greach_full h) t

example : ((run init (demoOps.take 3)).map fun s => ((s.edges 1).isSome, (s.qdeps 1).count 1)) =
    some (true, 1) := by decide
example : ((run init (transferOps.take 9)).map fun s => ((s.edges 2).isSome, (s.qdeps 1).count 2)) =
    some (true, 1) := by decide

/-! ### W3 — every dependent of `k` points at the thread that owns `k` -/

-- full statement: `t ∈ s.qdeps k → s.edges t = some (resolvedOwner s k)`, where the resolved owner of a
-- `Transferred` key is the thread found by `threadIdOfTransferredQuery` (the thread stored in a
-- `transferred` entry may be stale), for arbitrary `Op` sequences.
theorem w3_points_at_owner_partial (ops : List Op) (s : State) (hb : basicOps ops = true)
    (h : run init ops = some s) (t k : Nat) (ht : t ∈ s.qdeps k) :
    ∃ st u, s.sync k = some st ∧ st.owner = .thread u ∧ st.anyoneWaiting = true ∧
      s.edges t = some u :=
  (reach_basic hb h).w3 t k ht

example : ((run init (demoOps.take 3)).map fun s =>
    ((s.sync 1).map (·.owner), (s.sync 1).map (·.anyoneWaiting), s.edges 2)) =
    some (some (.thread 0), some true, some 0) := by decide

/-! ### W5 — every Block is answered by exactly one result (full: every `Op`, including transfers) -/

/-- (a) a thread with an unconsumed result is not blocked; (b) in every step each thread either keeps
    its status and result (a blocked thread's edge may be re-pointed by a transfer), or goes
    idle → blocked by its own (non-wake) step, or blocked → ready (a result is delivered — exactly one,
    because ready → ready keeps the result), or ready → idle by its own `wake`.  Nothing else: no
    blocked → idle (an edge dropped without a result), no ready → blocked, no overwritten result. -/
theorem w5_exactly_once (ops : List Op) (s : State) (h : run init ops = some s) :
    (∀ t, (s.results t).isSome → s.edges t = none) ∧
    (∀ op s', step s op = some s' → Lifecycle s s' op) := by
  have hp := reach_full h
  exact ⟨hp.w5, fun op s' hs => (step_full hp hs).2⟩

/-- State part for arbitrary graph-operation sequences (lock-hold granularity). -/
theorem w5_result_not_blocked_graph (ops : List GOp) (s : State) (h : grun init ops = some s) :
    ∀ t, (s.results t).isSome → s.edges t = none :=
  (greach_full h).w5

example : ((run init (demoOps.take 5)).map fun s => (s.results 1, s.results 2, s.edges 1, s.edges 2)) =
    some (some .completed, some .completed, none, none) := by decide
example : ((run init demoOps).map fun s => (status s 0, status s 1, status s 2)) =
    some (.idle, .idle, .idle) := by decide
-- the transfer step itself: t1 blocked → ready, t0 idle → blocked (by its own step)
example : ((run init (transferOps.take 4)).map fun s => (status s 0, status s 1)) =
      some (.idle, .blocked) ∧
    ((run init (transferOps.take 5)).map fun s => (status s 0, status s 1)) =
      some (.blocked, .ready) := by decide

/-! ### W6 — no lost wake-up -/

theorem step_release {s s' : State} {t k : Nat} {r : WaitResult} (hs : step s (.release t k r) = some s') :
    releaseEntry (touch (touch s t) k) k r = some s' := by
  simp only [step, stepA] at hs
  cases hc : (idle (touch (touch s t) k) t && ownedBy (touch (touch s t) k) k t) with
  | false => simp [hc] at hs
  | true =>
    simp only [hc, if_true, Option.map_map, Option.map_eq_some_iff] at hs
    obtain ⟨s2, hr, rfl⟩ := hs
    exact hr

theorem step_releaseSelf {s s' : State} {t k : Nat} (hs : step s (.releaseSelf t k) = some s') :
    releaseSelf (touch (touch s t) k) k = some s' := by
  simp only [step, stepA] at hs
  cases hc : (idle (touch (touch s t) k) t && ownedBy (touch (touch s t) k) k t) with
  | false => simp [hc] at hs
  | true =>
    simp only [hc, if_true, Option.map_map, Option.map_eq_some_iff] at hs
    obtain ⟨s2, hr, rfl⟩ := hs
    exact hr

-- full statement: for arbitrary `Op` sequences: (a) as below; additionally a key whose sync entry is a
-- stale `Transferred` (no `transferred` entry) has no dependents; (b) as below, where for a transfer
-- target the dependents of all keys transitively transferred to `k` get `r` as well; (c) `transfer`
-- delivers `Completed` to exactly the one thread that becomes the owner.
/-- (a) a key without sync entry has no dependents; (b) when `release` (guard drop in Default mode with
    `Completed`, `release_panicking` with `Panicked`/`Cancelled`) or `releaseSelf` removes the entry of
    `k`, the dependents list of `k` is empty afterwards and every former dependent has received exactly
    that result and lost its edge. -/
theorem w6_no_lost_wakeup_partial (ops : List Op) (s : State) (hb : basicOps ops = true)
    (h : run init ops = some s) :
    (∀ k, s.sync k = none → s.qdeps k = []) ∧
    (∀ t k r s', step s (.release t k r) = some s' →
      s'.sync k = none ∧ s'.qdeps k = [] ∧
      ∀ u, u ∈ s.qdeps k → s'.results u = some r ∧ s'.edges u = none) ∧
    (∀ t k s', step s (.releaseSelf t k) = some s' →
      s'.sync k = none ∧ s'.qdeps k = [] ∧
      ∀ u, u ∈ s.qdeps k → s'.results u = some .completed ∧ s'.edges u = none) := by
  have hp := reach_basic hb h
  refine ⟨hp.w6, ?_, ?_⟩
  · intro t k r s' hs
    have h0 := PInvB_touch k (PInvB_touch t hp)
    obtain ⟨_, h1, h2, h3, _⟩ := releaseEntry_basic h0 (step_release hs)
    exact ⟨h1, h2, h3⟩
  · intro t k s' hs
    have h0 := PInvB_touch k (PInvB_touch t hp)
    obtain ⟨_, h1, h2, h3, _⟩ := releaseEntry_basic h0 (releaseSelf_basic h0 (step_releaseSelf hs))
    exact ⟨h1, h2, h3⟩

/-- The internal `.expect("not blocked")` of `unblock_runtime` cannot fire: a release by the owner
    is always enabled. -/
theorem c19_release_enabled_partial (ops : List Op) (s : State) (hb : basicOps ops = true)
    (h : run init ops = some s) (t k : Nat) (r : WaitResult) (hi : idle s t = true)
    (ho : ownedBy s k t = true) : (step s (.release t k r)).isSome = true := by
  have hp := PInvB_touch k (PInvB_touch t (reach_basic hb h))
  have hi' : idle (touch (touch s t) k) t = true := hi
  have ho' : ownedBy (touch (touch s t) k) k t = true := ho
  simp only [step, stepA, hi', ho', Bool.and_self, if_true, Option.map_map, Option.isSome_map]
  generalize touch (touch s t) k = s0 at hp ho'
  obtain ⟨st, hk, _⟩ := ownedBy_iff.mp ho'
  obtain ⟨_, hc2, htt⟩ := hp.owner k st hk
  simp only [releaseEntry, hk, release, hc2, htt]
  cases st.anyoneWaiting with
  | false => simp
  | true =>
    have hg0 : GInv { s0 with sync := upd s0.sync k none } [] := GInv.congr (s := s0) rfl rfl rfl hp.g
    obtain ⟨s2, h2⟩ := unblockRuntimesBlockedOn_enabled k r hg0
    simp [h2]

example : ((run init (demoOps.take 4)).map fun s => s.qdeps 1) = some [1, 2] ∧
    ((run init (demoOps.take 4 ++ [.release 0 1 .panicked])).map fun s' =>
      ((s'.sync 1).isSome, s'.qdeps 1, s'.results 1, s'.results 2)) =
    some (false, [], some .panicked, some .panicked) := by decide

/-! ### c19_cycle_reported — a claim that would close a wait cycle is answered `Cycle`, no edge added -/

-- full statement: for arbitrary `Op` sequences, with `other` the resolved owner of `k`; for a
-- `Transferred` key the answer is `Cycle { inner: true }` under `Reentrancy::Deny` and a re-entrant
-- `Claimed` under `Allow`; never `Running`, and no edge is added.
/-- Holds in EVERY state (reachable or not): it is a property of the code of `try_claim`/`block` alone.
    `_partial` because the key is owned by a thread (`SyncOwner::Thread`), not `Transferred`. -/
theorem c19_cycle_reported_partial (s : State) (me other k : Nat) (re blk : Bool) (st : SyncState)
    (hk : s.sync k = some st) (ho : st.owner = .thread other) (hi : idle s me = true)
    (hdep : other = me ∨ dependsOn s other me = some true) :
    ∃ s', stepA s (.claim me k re blk) = some (s', .claim (.cycle false) false) ∧
      s'.edges = s.edges ∧ s'.qdeps = s.qdeps ∧ s'.results = s.results := by
  have hi' : idle (touch (touch s me) k) me = true := hi
  have hk' : (touch (touch s me) k).sync k = some st := hk
  have hdep' : other = me ∨ dependsOn (touch (touch s me) k) other me = some true := by
    rcases hdep with hd | hd
    · exact Or.inl hd
    · refine Or.inr ?_
      unfold dependsOn at hd ⊢
      have hle : s.bound + 1 ≤ (touch (touch s me) k).bound + 1 := by
        simp only [touch]; omega
      obtain ⟨m, hm⟩ := Nat.le.dest hle
      rw [← hm]
      exact dependsOnLoop_fuel_mono _ m _ hd
  refine ⟨setWaiting (touch (touch s me) k) k st, ?_, rfl, rfl, rfl⟩
  simp only [stepA, hi', if_true, tryClaim, hk', ho]
  have hb : block (setWaiting (touch (touch s me) k) k st) me other = some (.cycle false) := by
    unfold block
    rcases hdep' with hd | hd
    · simp [hd]
    · by_cases hm : me = other
      · simp [hm]
      · have : dependsOn (setWaiting (touch (touch s me) k) k st) other me = some true := hd
        simp [hm, this]
  simp [hb, finishClaim]

example : ((run init (demoOps.take 3)).map fun s =>
    ((stepA s (.claim 0 1 false true)).map (·.2), dependsOn s 0 0)) =
    some (some (.claim (.cycle false) false), some true) := by decide

end SalsaVerif.Props.C19
