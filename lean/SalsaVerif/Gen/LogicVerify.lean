/- translation failed: anchor '\\bif\\s+(?=can_shallow_update\\.yes\\(\\))' matches 0 times in MemoHeader::maybe_changed_after_hot, src/function/maybe_changed_after.rs -/
#eval (translation_failed : Nat)
