/- translation failed: anchor '\\bColdResult::Verified\\(\\s*if\\s+' matches 2 times in maybe_changed_after_cold, src/function/maybe_changed_after.rs -/
#eval (translation_failed : Nat)
