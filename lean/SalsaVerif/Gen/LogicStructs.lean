/- translation failed: anchor '\\bif\\s+(?=last_updated_at\\b)' matches 2 times in update, src/tracked_struct.rs -/
#eval (translation_failed : Nat)
