/- translation failed: control flow of Edges::depends_on, src/runtime/dependency_graph.rs changed: skeleton is now letmutp=⟦0⟧;for_in0..Self::MAX_CHAIN_LEN{letSome(q)=self.0.get(&p).map(|edge|edge.blocked_on_id)else{break;};if⟦1⟧{return⟦2⟧;}p=⟦3⟧;}⟦4⟧ -/
#eval (translation_failed : Nat)
