import SalsaVerif.Drive.Common
import SalsaVerif.Drive.Edges
import SalsaVerif.Drive.Cycle
import SalsaVerif.Drive.CycleRev
import SalsaVerif.Drive.Lru
import SalsaVerif.Drive.Intern
import SalsaVerif.Drive.SyncDG
import SalsaVerif.Drive.Core
import SalsaVerif.Drive.Core3
import SalsaVerif.Drive.CoreAcc
import SalsaVerif.Drive.CoreSpec
import SalsaVerif.Drive.Cancel
import SalsaVerif.Drive.Alloc
import SalsaVerif.Drive.Persist
import SalsaVerif.Drive.Structs

/-! `svdriver <model>` — reads an op file on stdin, prints one line per op. -/
def main (args : List String) : IO UInt32 := do
  match args with
  | ["edges"] => SalsaVerif.Drive.Edges.main; return 0
  | ["cycle"] => SalsaVerif.Drive.Cycle.main; return 0
  | ["cyclerev"] => SalsaVerif.Drive.CycleRev.main; return 0
  | ["cyclerev-cert"] => SalsaVerif.Drive.CycleRev.main true; return 0
  | ["dg"] => SalsaVerif.Drive.SyncDG.main; return 0
  | ["lru"] => SalsaVerif.Drive.Lru.main; return 0
  | ["rq"] => SalsaVerif.Drive.Intern.mainRq; return 0
  | ["intern"] => SalsaVerif.Drive.Intern.mainIntern; return 0
  | ["core"] => SalsaVerif.Drive.Core.main; return 0
  | ["core3"] => SalsaVerif.Drive.Core3.main; return 0
  | ["coreacc"] => SalsaVerif.Drive.CoreAcc.main; return 0
  | ["corespec"] => SalsaVerif.Drive.CoreSpec.main; return 0
  | ["cancel"] => SalsaVerif.Drive.Cancel.main; return 0
  | ["alloc"] => SalsaVerif.Drive.Alloc.main; return 0
  | ["persist"] => SalsaVerif.Drive.Persist.main; return 0
  | ["structs"] => SalsaVerif.Drive.Structs.main; return 0
  | _ =>
    IO.eprintln "usage: svdriver <model>  (models: edges, cycle, cyclerev, dg, lru, rq, intern, core, cancel, alloc, persist, structs)"
    return 2
