import SalsaVerif.Drive.Common
import SalsaVerif.Drive.Edges
import SalsaVerif.Drive.Lru
import SalsaVerif.Drive.Intern
import SalsaVerif.Drive.SyncDG

/-! `svdriver <model>` — reads an op file on stdin, prints one line per op. -/
def main (args : List String) : IO UInt32 := do
  match args with
  | ["edges"] => SalsaVerif.Drive.Edges.main; return 0
  | ["dg"] => SalsaVerif.Drive.SyncDG.main; return 0
  | ["lru"] => SalsaVerif.Drive.Lru.main; return 0
  | ["rq"] => SalsaVerif.Drive.Intern.mainRq; return 0
  | ["intern"] => SalsaVerif.Drive.Intern.mainIntern; return 0
  | _ =>
    IO.eprintln "usage: svdriver <model>  (models: edges, dg, lru, rq, intern)"
    return 2
