import SalsaVerif.Drive.Common
import SalsaVerif.Drive.Edges

/-! `svdriver <model>` — reads an op file on stdin, prints one line per op. -/
def main (args : List String) : IO UInt32 := do
  match args with
  | ["edges"] => SalsaVerif.Drive.Edges.main; return 0
  | _ =>
    IO.eprintln "usage: svdriver <model>  (models: edges)"
    return 2
